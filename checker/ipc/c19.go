package ipc

import (
	"fmt"
	"go/constant"
	"go/token"
	"go/types"
	"strings"

	"golang.org/x/tools/go/ssa"
)

func init() {
	register(&PropSpec{
		ID:    "C19",
		Progs: []string{"mod"},
		Explanation: "Blob split/join equality at the 1,000,000-byte boundaries is arithmetic on run-time lengths and is not decided. Decided: " +
			"(I) chain of custody of (backend ID, request ID): proxyHandler stores and waits under the same two values (LookupBackend result, App Engine request ID), stores the serialisation of its own request and parses the bytes waitForResponse returned; the agent endpoints read/write under the validated backend ID and the header's request ID; a response is stored only after ReadRequest(backendID, requestID) under the same pair succeeded (WriteResponse unreachable from its failure branch); " +
			"(K) key agreement: datastore keys for requests, responses and blob parts are built with the same kind and the same argument roles on the write and on the read path; blob parts are written under names recorded in loop order and read back with one ordered GetMulti over keys built from blob.Parts in order, concatenated in that order, without goroutines; " +
			"(C) completion: Completed=true is set on the request that was read, before it is written back; the pending query filters Completed=false on the kind of the same backend; " +
			"(H) no call hangs: every error channel has capacity ≥ the maximum number of sends that can happen (path-sensitive count over the function plus its goroutines; loop-spawned senders vs. a capacity equal to the loop bound); WaitGroup Add(n) equals the goroutines that defer Done; both wait loops select on a context derived from context.WithTimeout(constant) and return; the time-out maps to 504. " +
			"(S) cache keys are injective in (backend ID, request ID) and built from the same roles on both sides; (R) the GET response cache key is injective in (user, URL), one value for lookup and store, GET only. " +
			"(I, second part) nothing parses the form or reads the body of the client's request before r.Write serialises it." +
			" (H, second part) no cycle of a wait loop avoids the Done select and the 504 is reported on every path of the failure branch; (S, second part) the caching store delegates with its own parameters, context included.",
		Assumptions: []string{"datastore GetMulti returns entities in key order; memcache/datastore round-trip byte slices"},
		Run:         runC19,
	})
}

const dsPkg = "google.golang.org/appengine/v2/datastore"

// maxSends: the maximum number of send instructions matching pred executed on
// any path through fn (a send inside a loop counts as unbounded = 1000).
func maxSends(fn *ssa.Function, pred func(ssa.Instruction) bool) int {
	memo := map[*ssa.BasicBlock]int{}
	onStack := map[*ssa.BasicBlock]bool{}
	var rec func(b *ssa.BasicBlock) int
	rec = func(b *ssa.BasicBlock) int {
		if v, ok := memo[b]; ok {
			return v
		}
		if onStack[b] {
			return 0
		}
		onStack[b] = true
		n := 0
		for _, in := range b.Instrs {
			if pred(in) {
				if InLoop(b) {
					n += 1000
				} else {
					n++
				}
			}
		}
		best := 0
		for _, s := range b.Succs {
			if v := rec(s); v > best {
				best = v
			}
		}
		onStack[b] = false
		memo[b] = n + best
		return n + best
	}
	if len(fn.Blocks) == 0 {
		return 0
	}
	return rec(fn.Blocks[0])
}

func runC19(c *Ctx) {
	p := c.Progs["mod"]
	c.Rule("C19.Y", "compatibility with the party that is not changed with this code: blob layout; the agent endpoints let only the ID headers decide; new fields of stored records decide nothing", 7)
	ruleBlobLayout(c, p, "C19.Y")
	ruleReceiverHeadersDecide(c, p, "C19.Y", []string{"app.pendingHandler", "app.requestHandler", "app.responseHandler", "app.parseResponse", "app.checkBackendID"}, "X-Inverting-Proxy-Backend-ID", "X-Inverting-Proxy-Request-ID")
	ruleNewWireFieldNotDecisive(c, p, "C19.Y", "a record stored or cached by an instance of the deployed build carries the zero value there", "app/types.Request", "app/types.Response")
	c.Rule("C19.I", "chain of custody of (backend ID, request ID) and of the stored bytes", 23)
	c.Rule("C19.K", "key agreement between write and read paths; ordered blob parts; stored entities stay loadable", 13)
	c.Rule("C19.C", "completion flag", 3)
	c.Rule("C19.S", "cache and datastore keys encode (backend ID, request ID) injectively, same roles on both sides; the caching store delegates with its own parameters, context included (= C17.S); what it caches is the value it writes through", 7)
	ruleCacheHoldsWhatIsStored(c, p, "C19.S")
	c17Sibling(c, p, "C19.S") // includes the key rules; the caching store hands its own parameters (context included) to the store it wraps
	c.Rule("C19.R", "GET response cache: one injective key of (user, URL) for lookup and store", 6)
	ruleAppResponseCacheKey(c, p, "C19.R")
	ruleAppForwardResponseKeepsAllValues(c, p, "C19.R")
	c.Rule("C19.H", "no call hangs: channel capacities, WaitGroup pairing, bounded wait loops", 7)
	c.Rule("C19.W", "results of concurrent store writes: one writer per captured result variable; wait windows are not shortened by an inherited deadline", 2)
	ruleOneWriterPerCapturedResult(c, p, "C19.W", "app", "app/store", "app/cache")
	ruleWaitWindowNotInherited(c, p, "C19.W")
	const sp = ModPath + "/app/store"

	// ---- C19.I
	if f := c.need(p, "C19.I", "app.proxyHandler"); f != nil {
		// the request is stored through postRequest(ctx, s, backendID, requestID, user, bytes) or,
		// when that helper was inlined, through types.NewRequest(backendID, requestID, user, bytes) + s.WriteRequest
		var pr ssa.Instruction
		var a []ssa.Value
		if p.Func("app.postRequest") != nil {
			if pr = c.UniqueCall("C19.I", p, f, false, appPkg+".postRequest"); pr != nil {
				a = PArgs(CallOf(pr))
			}
		} else if nr := c.UniqueCall("C19.I", p, f, false, ModPath+"/app/types.NewRequest"); nr != nil {
			if ws := c.UniqueCall("C19.I", p, f, false, storeIface+".WriteRequest"); ws != nil && SameValue(Args(CallOf(ws))[2], nr.(ssa.Value)) {
				pr = nr
				a = append([]ssa.Value{nil, nil}, PArgs(CallOf(nr))...)
			} else if ws != nil {
				c.Bad("C19.I", "proxy:stores-the-new-request", p, ws.Pos(), "the request written to the store is not the one built by types.NewRequest in proxyHandler")
			}
		}
		wr := c.UniqueCall("C19.I", p, f, false, appPkg+".waitForResponse")
		if pr != nil && wr != nil {
			b := PArgs(CallOf(wr))
			c.Check("C19.I", "proxy:same-pair-stored-and-awaited", p, wr.Pos(), SameValue(a[2], b[2]) && SameValue(a[3], b[3]), "the response is awaited under the same (backend ID, request ID) the request was stored under", "proxyHandler stores the request under ("+PathOf(a[2])+", "+PathOf(a[3])+") but waits for the response under ("+PathOf(b[2])+", "+PathOf(b[3])+"): the client can receive another request's response or time out")
			c.PathIs("C19.I", "proxy:request-id-is-own", p, pr.Pos(), a[3], "the request ID is this call's own (App Engine request ID parameter)", P(f, 2))
			c.PathIs("C19.I", "proxy:backend-from-lookup", p, pr.Pos(), a[2], "the backend is the one LookupBackend returned", "result0:"+storeIface+".LookupBackend")
			// stored bytes = serialisation of own request
			okBytes := false
			if w := c.UniqueCall("C19.I", p, f, false, "(*net/http.Request).Write"); w != nil {
				wa := Args(CallOf(w))
				if PathOf(wa[0]) == P(f, 4) {
					reaches, _ := DerivesFrom(a[5], func(v ssa.Value) bool {
						for _, r := range Roots(wa[1]) {
							if v == r {
								return true
							}
						}
						if al, ok := v.(*ssa.Alloc); ok && NamedType(al.Type()) == "bytes.Buffer" {
							for _, r := range Roots(wa[1]) {
								if r == ssa.Value(al) {
									return true
								}
							}
						}
						return false
					}, func(ssa.Value) bool { return false })
					okBytes = reaches
				}
			}
			if w := c.UniqueCall("C19.I", p, f, false, "(*net/http.Request).Write"); w != nil {
				// nothing consumes the request (form parsing, body reads) before it is serialised
				bad := ""
				for _, fn := range WithClosures(f) {
					EachInstr(fn, func(i ssa.Instruction) {
						cc := CallOf(i)
						if cc == nil || i == w || Dominates(w, i) {
							return
						}
						nm := CalleeName(cc)
						switch nm {
						case "(*net/http.Request).FormValue", "(*net/http.Request).PostFormValue", "(*net/http.Request).ParseForm", "(*net/http.Request).ParseMultipartForm", "(*net/http.Request).FormFile", "(*net/http.Request).MultipartReader":
							if PathOf(Args(cc)[0]) == P(f, 4) {
								bad = nm + " at " + p.Pos(i.Pos())
							}
							return
						}
						switch nm[strings.LastIndex(nm, ".")+1:] {
						case "Read", "ReadAll", "ReadFull", "ReadAtLeast", "Copy", "CopyN", "CopyBuffer", "ReadFrom", "Discard", "Peek", "NewDecoder", "NewReader", "NewScanner", "MaxBytesReader", "LimitReader", "TeeReader":
						default:
							return
						}
						for _, a := range Args(cc) {
							SliceBack(a, func(v ssa.Value) bool {
								if base, fld, ok := FieldLoad(v); ok && fld == "Body" && PathOf(base) == P(f, 4) {
									bad = nm + " on the request body at " + p.Pos(i.Pos())
								}
								return true
							})
						}
					})
				}
				c.Check("C19.I", "proxy:request-unconsumed-before-serialising", p, w.Pos(), bad == "", "nothing parses the form or reads the body of the client's request before r.Write serialises it", "the client's request is consumed before it is serialised ("+bad+"): form parsing and body reads drain r.Body, so the stored bytes are not the client's request (empty body, or r.Write fails on the Content-Length mismatch)")
			}
			c.Check("C19.I", "proxy:stores-own-serialised-request", p, pr.Pos(), okBytes, "the bytes stored are read from the buffer this request was serialised into (r.Write)", "the bytes handed to postRequest are not the serialisation of the handler's own request")
			if rr := c.UniqueCall("C19.I", p, f, false, "net/http.ReadResponse"); rr != nil {
				reaches, _ := DerivesFrom(PArgs(CallOf(rr))[0], func(v ssa.Value) bool { return v == wr.(ssa.Value) }, func(ssa.Value) bool { return false })
				c.Check("C19.I", "proxy:parses-awaited-bytes", p, rr.Pos(), reaches, "the response parsed is the bytes waitForResponse returned", "http.ReadResponse does not parse the bytes returned by waitForResponse")
				c.ArgIs("C19.I", "proxy:parses-against-own-request", p, rr, 1, "parsed against the handler's own request", P(f, 4))
			}
			// timeout => 504
			var ifi *ssa.If
			fail := 0
			EachInstr(f, func(i ssa.Instruction) {
				if x, ok := i.(*ssa.If); ok {
					if v, s, ok := ErrNilTest(x); ok && CallResult(v, 1, appPkg+".waitForResponse") != nil {
						ifi, fail = x, s
					}
				}
			})
			ok504 := false
			if ifi != nil {
				// every path of the failure branch to a return reports 504
				is504 := func(i ssa.Instruction) bool {
					return IsCall(i, appPkg+".reportError") && len(PArgs(CallOf(i))) > 3 && isConstInt(PArgs(CallOf(i))[3], 504)
				}
				n504 := 0
				for _, call := range Calls(f, appPkg+".reportError") {
					if is504(call) {
						n504++
					}
				}
				miss, _ := (&Walk{Target: IsReturn, Avoid: is504}).FromBlock(ifi.Block().Succs[fail])
				ok504 = n504 > 0 && miss == nil
			}
			c.Check("C19.I", "proxy:no-response-is-504", p, wr.Pos(), ok504, "a missing response is reported as 504", "a wait that ends without a response is not answered 504")
		}
	}
	if f := c.need(p, "C19.I", "app.waitForResponse"); f != nil {
		if rr := c.UniqueCall("C19.I", p, f, false, storeIface+".ReadResponse"); rr != nil {
			c.ArgIs("C19.I", "wait:reads-under-own-backend", p, rr, 2, "backend ID role", P(f, 2))
			c.ArgIs("C19.I", "wait:reads-under-own-request", p, rr, 3, "request ID role", P(f, 3))
			okRet := false
			for _, r := range Returns(f) {
				if IsNilConst(ReturnValue(r, 1)) && PathOf(ReturnValue(r, 0)) == "result0:"+storeIface+".ReadResponse.Contents" {
					okRet = true
				}
			}
			c.Check("C19.I", "wait:returns-read-contents", p, f.Pos(), okRet, "returns the Contents of the response it read", "waitForResponse does not return the Contents of the response read under its own IDs")
		}
	}
	if p.Func("app.postRequest") == nil {
		for _, name := range []string{"backendID", "requestID", "requestBytes"} {
			c.OK("C19.I", "postRequest→NewRequest:"+name, p, 0, "postRequest was inlined: proxyHandler passes the value to types.NewRequest itself (checked above)")
		}
	} else if f := c.need(p, "C19.I", "app.postRequest"); f != nil {
		if nr := c.UniqueCall("C19.I", p, f, false, ModPath+"/app/types.NewRequest"); nr != nil {
			for k, name := range map[int]string{0: "backendID", 1: "requestID", 3: "requestBytes"} {
				c.ArgIs("C19.I", "postRequest→NewRequest:"+name, p, nr, k, name+" role", P(f, k+2))
			}
		}
	}
	if f := c.need(p, "C19.I", "app/types.NewRequest"); f != nil {
		if as := AllocsOf(f, "app/types.Request"); len(as) == 1 {
			for fld, idx := range map[string]int{"BackendID": 0, "RequestID": 1, "Contents": 3} {
				if v, ok := LiteralField(as[0], fld); ok {
					c.PathIs("C19.I", "NewRequest:"+fld, p, as[0].Pos(), v, "Request."+fld, P(f, idx))
				} else {
					c.Bad("C19.I", "NewRequest:"+fld, p, as[0].Pos(), "field not set")
				}
			}
		}
	}
	if f := c.need(p, "C19.I", "app.requestHandler"); f != nil {
		if rr := c.UniqueCall("C19.I", p, f, false, storeIface+".ReadRequest"); rr != nil {
			okID := false
			if g := CallResult(Args(CallOf(rr))[3], 0, "(net/http.Header).Get"); g != nil {
				k, _ := ConstString(PArgs(&g.Call)[1])
				okID = k == hdrRequestID && PathOf(PArgs(&g.Call)[0]) == P(f, 3)+".Header"
			}
			c.Check("C19.I", "fetch:request-id-from-own-header", p, rr.Pos(), okID, "the request fetched is the one named by this call's request-ID header", "the request ID used by requestHandler is not this call's "+hdrRequestID+" header")
			okW := false
			for _, w := range Calls(f, "(net/http.ResponseWriter).Write") {
				if PathOf(Args(CallOf(w))[1]) == "result0:"+storeIface+".ReadRequest.Contents" && PathOf(Args(CallOf(w))[0]) == P(f, 2) {
					okW = true
				}
			}
			c.Check("C19.I", "fetch:writes-stored-contents", p, f.Pos(), okW, "the agent receives exactly request.Contents of the request it named", "requestHandler does not write the Contents of the request it read")
		}
	}
	if f := c.need(p, "C19.I", "app.parseResponse"); f != nil {
		if as := AllocsOf(f, "app/types.Response"); len(as) == 1 {
			v, _ := LiteralField(as[0], "RequestID")
			okID := false
			if g := CallResult(v, 0, "(net/http.Header).Get"); g != nil {
				k, _ := ConstString(PArgs(&g.Call)[1])
				okID = k == hdrRequestID && PathOf(PArgs(&g.Call)[0]) == P(f, 1)+".Header"
			}
			c.Check("C19.I", "respond:request-id-from-own-header", p, as[0].Pos(), okID, "Response.RequestID is this call's request-ID header", "Response.RequestID is not this call's "+hdrRequestID+" header")
			cv, _ := LiteralField(as[0], "Contents")
			okC := false
			if ra := CallResult(cv, 0, "io/ioutil.ReadAll", "io.ReadAll"); ra != nil {
				okC = PathOf(PArgs(&ra.Call)[0]) == P(f, 1)+".Body"
			}
			c.Check("C19.I", "respond:contents-is-own-body", p, as[0].Pos(), okC, "Response.Contents is this call's whole body", "Response.Contents is not ReadAll(r.Body) of this call")
		}
	}
	if f := c.need(p, "C19.I", "app.postResponse"); f != nil {
		rr := c.UniqueCall("C19.I", p, f, false, storeIface+".ReadRequest")
		if rr != nil {
			var ifi *ssa.If
			fail := 0
			EachInstr(f, func(i ssa.Instruction) {
				if x, ok := i.(*ssa.If); ok {
					if v, s, ok := ErrNilTest(x); ok && CallResult(v, 1, storeIface+".ReadRequest") != nil {
						ifi, fail = x, s
					}
				}
			})
			ok := false
			if ifi != nil {
				isWrite := func(i ssa.Instruction) bool {
					if cc := CallOf(i); cc != nil && cc.IsInvoke() {
						n := cc.Method.FullName()
						return n == storeIface+".WriteResponse" || n == storeIface+".WriteRequest"
					}
					// goroutines started on that branch
					if g, isGo := i.(*ssa.Go); isGo {
						if fn := StaticFunc(&g.Call); fn != nil {
							found := false
							EachInstr(fn, func(j ssa.Instruction) {
								if cc := CallOf(j); cc != nil && cc.IsInvoke() && strings.Contains(cc.Method.FullName(), ".Write") {
									found = true
								}
							})
							return found
						}
					}
					return false
				}
				h, _ := (&Walk{Target: isWrite}).FromBlock(ifi.Block().Succs[fail])
				// and an error is reported on that branch
				rep := false
				for _, in := range ifi.Block().Succs[fail].Instrs {
					if _, isSend := in.(*ssa.Send); isSend {
						rep = true
					}
				}
				// … or handed back as the function's error: no nil error is returned from that branch
				if !rep {
					if fn := ifi.Parent(); fn.Signature.Results().Len() > 0 {
						last := fn.Signature.Results().Len() - 1
						if fn.Signature.Results().At(last).Type().String() == "error" {
							nilRet, _ := (&Walk{Target: func(i ssa.Instruction) bool {
								r, isR := i.(*ssa.Return)
								return isR && r.Parent() == fn && last < len(r.Results) && IsNilConst(ReturnValue(r, last))
							}, Local: true}).FromBlock(ifi.Block().Succs[fail])
							rep = nilRet == nil
						}
					}
				}
				ok = h == nil && rep
			}
			c.Check("C19.I", "respond:stored-only-for-matching-request", p, rr.Pos(), ok, "when no request exists under (validated backend, posted request ID) nothing is written and an error is reported", "postResponse writes a response (or marks a request) although ReadRequest(backendID, requestID) failed: an agent authorised for one backend can answer a request of another backend, since responses are keyed by request ID alone")
		}
	}

	// every path of postResponse that found the request either starts the write of the response or
	// reports an error: an early "nothing to do" return (a duplicate-looking post, say) acknowledges a
	// response that was never stored — the client then waits until its 504
	if f := c.need(p, "C19.I", "app.postResponse"); f != nil {
		starts := func(i ssa.Instruction) bool {
			if _, isSend := i.(*ssa.Send); isSend {
				return true
			}
			cc := CallOf(i)
			if cc == nil {
				return false
			}
			if cc.IsInvoke() && cc.Method.Name() == "WriteResponse" {
				return true
			}
			if g, isGo := i.(*ssa.Go); isGo {
				var body *ssa.Function
				switch v := g.Call.Value.(type) {
				case *ssa.MakeClosure:
					body, _ = v.Fn.(*ssa.Function)
				case *ssa.Function:
					body = v // go storeResponse(…): the named form of the writing goroutine
				}
				if body != nil {
					found := false
					for _, h := range WithClosures(body) {
						EachInstr(h, func(j ssa.Instruction) {
							if c2 := CallOf(j); c2 != nil && c2.IsInvoke() && c2.Method.Name() == "WriteResponse" {
								found = true
							}
						})
					}
					return found
				}
			}
			return false
		}
		// a return that hands back a non-nil error is a report, too (postResponse returning its
		// error instead of sending it on a channel)
		quietReturn := func(i ssa.Instruction) bool {
			r, isR := i.(*ssa.Return)
			if !isR || i.Parent() != f {
				return false
			}
			if n := len(r.Results); n > 0 && NamedType(r.Results[n-1].Type()) == "error" && !IsNilConst(ReturnValue(r, n-1)) {
				return false
			}
			return true
		}
		hit, path := (&Walk{Target: quietReturn, Avoid: starts, Ctx: f}).FromBlock(f.Blocks[0])
		c.Check("C19.I", "respond:every-path-stores-or-reports", p, f.Pos(), hit == nil, "every return of postResponse passed the write of the response or an error report", "postResponse can return without storing the response and without reporting an error ("+PathString(p, path)+"): the agent's post is acknowledged, nothing is stored, and the client never receives the response posted under its ID")
	}

	// ---- C19.K
	newKeyRoles := func(fnName, key string, kindWant func(ssa.Value) bool, nameWant string) {
		f := c.need(p, "C19.K", fnName)
		if f == nil {
			return
		}
		nk := c.UniqueCall("C19.K", p, f, false, dsPkg+".NewKey")
		if nk == nil {
			return
		}
		a := PArgs(CallOf(nk))
		c.Check("C19.K", key, p, nk.Pos(), kindWant(a[1]) && PathOf(a[2]) == strings.ReplaceAll(nameWant, "$", "param:"+paramName(f, 0)) || kindWant(a[1]) && PathOf(a[2]) == nameWant, "datastore key: expected kind and name roles", fmt.Sprintf("datastore key in %s is built from kind %s and name %s, which does not agree with its sibling on the other path", fnName, PathOf(a[1]), PathOf(a[2])))
	}
	reqKind := func(arg string) func(ssa.Value) bool {
		return func(v ssa.Value) bool {
			call := CallResult(v, 0, sp+".requestKind")
			return call != nil && PathOf(PArgs(&call.Call)[0]) == arg
		}
	}
	constKind := func(k string) func(ssa.Value) bool {
		return func(v ssa.Value) bool { s, ok := ConstString(v); return ok && s == k }
	}
	if f := p.Func("app/store.(*storedRequest).datastoreKey"); f != nil {
		newKeyRoles("app/store.(*storedRequest).datastoreKey", "request-key:write", reqKind(P(f, 0)+".BackendID"), P(f, 0)+".RequestID")
	}
	if f := p.Func("app/store.readStoredRequest"); f != nil {
		newKeyRoles("app/store.readStoredRequest", "request-key:read", reqKind(P(f, 1)), P(f, 2))
	}
	if f := p.Func("app/store.(*storedResponse).datastoreKey"); f != nil {
		newKeyRoles("app/store.(*storedResponse).datastoreKey", "response-key:write", constKind("response"), P(f, 0)+".RequestID")
	}
	if f := p.Func("app/store.readStoredResponse"); f != nil {
		newKeyRoles("app/store.readStoredResponse", "response-key:read", constKind("response"), P(f, 2))
	}
	// stored entity carries the IDs of the value it stores
	for _, pair := range [][2]string{{"app/store.newStoredRequest", "app/store.storedRequest"}, {"app/store.newStoredResponse", "app/store.storedResponse"}} {
		if f := c.need(p, "C19.K", pair[0]); f != nil {
			as := AllocsOf(f, pair[1])
			if len(as) > 1 {
				// the entity being built is the one whose ID fields are filled in here
				var built []*ssa.Alloc
				for _, a := range as {
					if _, ok := LiteralField(a, "BackendID"); ok {
						built = append(built, a)
					}
				}
				as = built
			}
			if len(as) != 1 {
				c.Unk("C19.K", pair[0]+":ids", p, f.Pos(), fmt.Sprintf("%d values of %s are built in %s: the rule cannot tell which one is stored", len(as), pair[1], pair[0]))
			} else {
				// the stored bytes are the blob of the value's own contents: the blob field is only ever
				// assigned (the deref of) what newBlob returned in this call
				blobFld := map[string]string{"app/store.storedRequest": "RequestBytes", "app/store.storedResponse": "ResponseBytes"}[pair[1]]
				badBlob := ""
				nblob := 0
				EachInstrRaw(f, func(i ssa.Instruction) {
					st, isSt := i.(*ssa.Store)
					if !isSt {
						return
					}
					base, fld, isF := FieldAddrOf(st.Addr)
					if !isF || fld != blobFld || NamedTypeRel(base.Type()) != pair[1] {
						return
					}
					nblob++
					v := st.Val
					if ld, isLd := v.(*ssa.UnOp); isLd && ld.Op == token.MUL {
						v = ld.X
					}
					if CallResult(v, 0, ModPath+"/app/store.newBlob") == nil {
						badBlob = "the field " + blobFld + " is assigned " + PathOf(st.Val) + " at " + p.Pos(st.Pos())
					}
				})
				c.Check("C19.K", pair[0]+":bytes-are-the-blob-of-the-stored-value", p, f.Pos(), badBlob == "" && nblob > 0, "the entity's "+blobFld+" is only ever what newBlob made of the value's contents in this call", badBlob+": the entity stored under this (backend ID, request ID) then carries bytes that are not the ones handed in — an agent fetching the request, or the client waiting for the response, reads back something else than was stored")
			}
			if len(as) == 1 {
				okf := true
				for _, fld := range []string{"BackendID", "RequestID"} {
					v, ok := LiteralField(as[0], fld)
					if !ok || PathOf(v) != P(f, 1)+"."+fld {
						okf = false
					}
				}
				c.Check("C19.K", pair[0]+":ids", p, as[0].Pos(), okf, "the stored entity carries BackendID/RequestID of the value it stores (its key is derived from them)", "the stored entity's BackendID/RequestID are not those of the value being stored")
			}
		}
	}
	ruleBlobParts(c, p, "C19.K")
	ruleBlobReadFailsOnlyOnStoreErrors(c, p, "C19.K")
	ruleStoredEntityLoadable(c, p, "C19.K", "app/store.storedRequest", "app/store.storedResponse", "app/store.blob", "app/store.blobPart")
	if f := c.need(p, "C19.K", "app/store.newBlob"); f != nil {
		okN := false
		if as := AllocsOf(f, "app/store.blob"); len(as) >= 1 {
			for _, a := range as {
				if v, ok := LiteralField(a, "Parts"); ok && PathOf(v) == "result0:"+sp+".writeBlobParts" {
					okN = true
				}
			}
		}
		c.Check("C19.K", "blob:parts-list-is-written-names", p, f.Pos(), okN, "blob.Parts is the list of names writeBlobParts returned", "blob.Parts is not the list returned by writeBlobParts")
	}

	// ---- C19.C
	if f := c.need(p, "C19.C", "app.postResponse"); f != nil {
		rr := c.UniqueCall("C19.C", p, f, false, storeIface+".ReadRequest")
		okC := false
		var wreq ssa.Instruction
		for _, fn := range WithClosures(f) {
			for _, call := range Calls(fn, storeIface+".WriteRequest") {
				wreq = call
			}
		}
		if rr != nil && wreq != nil {
			fn := wreq.Parent()
			reqArg := Args(CallOf(wreq))[2]
			isRead := len(Roots(reqArg)) == 1 && CallResult(Roots(reqArg)[0], 0, storeIface+".ReadRequest") != nil
			for _, st := range StoresToField([]*ssa.Function{fn}, "app/types.Request", "Completed") {
				base, _, _ := FieldAddrOf(st.Addr)
				if cv, ok := st.Val.(*ssa.Const); ok && cv.Value != nil && constant.BoolVal(cv.Value) && SameValue(base, reqArg) && Dominates(st, wreq) {
					okC = isRead
				}
			}
		}
		if rr != nil && wreq != nil && !okC {
			// … or a private copy of the read request, marked completed before the writer runs:
			// completed := *request; completed.Completed = true; …WriteRequest(ctx, &completed)
			reqArg := Args(CallOf(wreq))[2]
			{
				if al := resolveCell(reqArg); al != nil && NamedTypeRel(al.Type()) == "app/types.Request" {
					before := func(st ssa.Instruction) bool {
						if st.Parent() == wreq.Parent() {
							return Dominates(st, wreq)
						}
						// stored in the enclosing function before the writing goroutine is created
						for _, fn := range WithClosures(f) {
							found := false
							EachInstrRaw(fn, func(i ssa.Instruction) {
								if mc, isMC := i.(*ssa.MakeClosure); isMC && mc.Fn == ssa.Value(wreq.Parent()) && st.Parent() == fn && Dominates(st, mc) {
									found = true
								}
							})
							if found {
								return true
							}
						}
						return false
					}
					copied, flagged := false, false
					for _, fn := range WithClosures(f) {
						EachInstrRaw(fn, func(i ssa.Instruction) {
							st, isSt := i.(*ssa.Store)
							if !isSt {
								return
							}
							if st.Addr == ssa.Value(al) {
								if ld, isLd := st.Val.(*ssa.UnOp); isLd && ld.Op == token.MUL && CallResult(ld.X, 0, storeIface+".ReadRequest") != nil && before(st) {
									copied = true
								}
							}
							if base, fld, ok := FieldAddrOf(st.Addr); ok && fld == "Completed" && base == ssa.Value(al) {
								if cv, isC := st.Val.(*ssa.Const); isC && cv.Value != nil && constant.BoolVal(cv.Value) && before(st) {
									flagged = true
								}
							}
						})
					}
					okC = copied && flagged
				}
			}
		}
		c.Check("C19.C", "complete:flag-set-on-read-request-before-write", p, f.Pos(), okC, "Completed = true is stored into the request that was read, before that same request is written back", "postResponse does not set Completed=true on the request it read before writing it back: an answered request stays in the pending list")
	}
	if f := c.need(p, "C19.C", "app/store.(*persistentStore).ListPendingRequests"); f != nil {
		okQ, okF := false, false
		for _, fn := range WithClosures(f) {
			for _, call := range Calls(fn, dsPkg+".NewQuery") {
				if k := CallResult(PArgs(CallOf(call))[0], 0, sp+".requestKind"); k != nil && PathOf(PArgs(&k.Call)[0]) == P(f, 2) {
					okQ = true
				}
			}
			for _, call := range Calls(fn, "(*"+dsPkg+".Query).Filter") {
				a := PArgs(CallOf(call))
				k, _ := ConstString(a[1])
				if strings.ReplaceAll(k, " ", "") == "Completed=" {
					v := a[2]
					if mi, ok := v.(*ssa.MakeInterface); ok {
						v = mi.X
					}
					if cv, ok := v.(*ssa.Const); ok && cv.Value != nil && !constant.BoolVal(cv.Value) {
						okF = true
					}
				}
			}
		}
		c.Check("C19.C", "pending:query-own-backend-kind", p, f.Pos(), okQ, "the pending query runs on the request kind of the backend asked about", "the pending query does not run on requestKind(<backendID parameter>)")
		c.Check("C19.C", "pending:filters-not-completed", p, f.Pos(), okF, "the pending query filters Completed = false", "the pending list no longer filters Completed = false: answered requests are listed (and forwarded) again")
	}

	// ---- C19.H
	c19Hangs(c, p)
}

func paramName(f *ssa.Function, i int) string {
	if i < len(f.Params) {
		return f.Params[i].Name()
	}
	return "?"
}

func c19Hangs(c *Ctx, p *Prog) {
	var fns []*ssa.Function
	for _, pk := range []string{"app", "app/store", "app/cache"} {
		fns = append(fns, p.FuncsIn(pk)...)
	}
	nch := 0
	for _, fn := range fns {
		EachInstr(fn, func(i ssa.Instruction) {
			mk, ok := i.(*ssa.MakeChan)
			if !ok {
				return
			}
			nch++
			top := fn
			key := fmt.Sprintf("chan:%s#%s", FuncName(top), p.Pos(mk.Pos()))
			key = fmt.Sprintf("chan in %s (%d)", FuncName(top), nch)
			onChan := func(owner *ssa.Function, match func(ssa.Value) bool) func(ssa.Instruction) bool {
				return func(j ssa.Instruction) bool {
					if s, ok := j.(*ssa.Send); ok {
						return match(s.Chan)
					}
					return false
				}
			}
			isMk := func(v ssa.Value) bool {
				for _, r := range Roots(v) {
					if r == ssa.Value(mk) {
						return true
					}
				}
				return false
			}
			// sends in the creating function (main body) + its goroutine closures
			total := maxSends(top, onChan(top, isMk))
			loopSpawn := false
			var loopBound ssa.Value
			for _, cl := range Closures(top) {
				n := maxSends(cl, onChan(cl, isMk))
				if n == 0 {
					continue
				}
				// how often is the closure started?
				starts := 0
				EachInstr(top, func(j ssa.Instruction) {
					if g, ok := j.(*ssa.Go); ok && StaticFunc(&g.Call) == cl {
						if InLoop(j.Block()) {
							loopSpawn = true
							// loop bound: the comparison i < N controlling the loop
							for _, b := range top.Blocks {
								if ifi := BlockIf(b); ifi != nil {
									if bo, ok := ifi.Cond.(*ssa.BinOp); ok && bo.Op == token.LSS && b.Dominates(j.Block()) && InLoop(b) {
										loopBound = bo.Y
									}
								}
							}
							starts = 1
						} else {
							starts++
						}
					}
				})
				total += n * starts
			}
			// the channel handed to a module function: add that function's sends on its parameter
			EachInstr(top, func(j ssa.Instruction) {
				cc := CallOf(j)
				if cc == nil {
					return
				}
				g := StaticFunc(cc)
				if g == nil || !p.IsModFunc(g) || len(g.Blocks) == 0 {
					return
				}
				for k, a := range PArgs(cc) {
					if a == nil {
						continue
					}
					if isMk(a) && k < len(g.Params) {
						pk := g.Params[k]
						isP := func(v ssa.Value) bool {
							for _, r := range Roots(v) {
								if r == ssa.Value(pk) {
									return true
								}
							}
							return false
						}
						total += maxSends(g, onChan(g, isP))
						for _, cl := range Closures(g) {
							total += maxSends(cl, onChan(cl, isP))
						}
					}
				}
			})
			capv, isC := ConstInt(mk.Size)
			switch {
			case loopSpawn:
				ok := !isC && loopBound != nil && SameValue(mk.Size, loopBound) && total <= 1
				c.Check("C19.H", key+":capacity", p, mk.Pos(), ok, "goroutines are spawned in a loop bounded by the channel's capacity and each sends at most once", fmt.Sprintf("error channel created at %s: senders are spawned in a loop but the capacity (%s) is not the loop bound, or a goroutine can send more than once: a sender blocks forever and wg.Wait() never returns", p.Pos(mk.Pos()), PathOf(mk.Size)))
			default:
				ok := isC && int(capv) >= total
				c.Check("C19.H", key+":capacity", p, mk.Pos(), ok, fmt.Sprintf("capacity %d ≥ at most %d send(s) before the first receive", capv, total), fmt.Sprintf("error channel created at %s has capacity %d (constant: %v) but up to %d sends can happen before anything is received: the extra sender blocks forever, wg.Wait() never returns and the HTTP call hangs", p.Pos(mk.Pos()), capv, isC, total))
			}
		})
	}
	if nch < 2 {
		c.Bad("C19.H", "channels", p, 0, fmt.Sprintf("found %d error channels in app/ (the two fan-in channels of postResponse and (*blob).read were confirmed by hand)", nch))
	}
	// WaitGroup pairing
	nwg := 0
	for _, fn := range fns {
		adds := Calls(fn, "(*sync.WaitGroup).Add")
		if len(adds) == 0 {
			continue
		}
		nwg++
		dones, goLoop := 0, false
		for _, cl := range DirectClosures(fn) {
			for _, in := range cl.Blocks[0].Instrs {
				if d, ok := in.(*ssa.Defer); ok && CalleeName(&d.Call) == "(*sync.WaitGroup).Done" {
					dones++
				}
			}
		}
		sum := int64(0)
		okc := true
		for _, a := range adds {
			n, isC := ConstInt(PArgs(CallOf(a))[1])
			if !isC {
				okc = false
			}
			if InLoop(a.Block()) {
				goLoop = true
			}
			sum += n
		}
		ok := okc && (goLoop && sum == 1 && dones == 1 || !goLoop && int(sum) == dones)
		// wg.Add(n) once in front of a loop `for i := 0; i < n; i++` (or over n parts) every
		// iteration of which starts the one goroutine that defers Done
		if !ok && len(adds) == 1 && !InLoop(adds[0].Block()) && dones == 1 {
			addArg := PArgs(CallOf(adds[0]))[1]
			if _, isC := ConstInt(addArg); !isC {
				EachInstr(fn, func(i ssa.Instruction) {
					g, isGo := i.(*ssa.Go)
					if !isGo || !InLoop(g.Block()) || !Dominates(adds[0], g) {
						return
					}
					// the loop head that tests `counter < n`
					for hb := g.Block(); hb != nil; hb = hb.Idom() {
						ifi := BlockIf(hb)
						if ifi == nil || len(hb.Succs) != 2 {
							continue
						}
						bo, isB := ifi.Cond.(*ssa.BinOp)
						if !isB || bo.Op != token.LSS || !SameValue(bo.Y, addArg) {
							continue
						}
						if _, isPhi := bo.X.(*ssa.Phi); !isPhi {
							continue
						}
						body := hb.Succs[0]
						head := hb
						h, _ := (&Walk{Target: func(j ssa.Instruction) bool { return j.Block() == head && j == head.Instrs[0] }, Avoid: func(j ssa.Instruction) bool { return j == ssa.Instruction(g) }, Local: true}).FromBlock(body)
						if h == nil {
							ok = true
						}
						break
					}
				})
			}
		}
		c.Check("C19.H", "waitgroup:"+FuncName(fn), p, adds[0].Pos(), ok && len(Calls(fn, "(*sync.WaitGroup).Wait")) == 1, fmt.Sprintf("Add(%d) matches %d goroutine(s) that defer Done; one Wait", sum, dones), fmt.Sprintf("%s: wg.Add total %d does not match the %d goroutine(s) that defer wg.Done(): Wait() returns early or never", FuncName(fn), sum, dones))
	}
	if nwg < 4 {
		c.Bad("C19.H", "waitgroups", p, 0, fmt.Sprintf("found %d WaitGroup users in app/ (4 confirmed by hand)", nwg))
	}
	// bounded wait loops
	for _, name := range []string{"app.waitForNextRequests", "app.waitForResponse"} {
		f := c.need(p, "C19.H", name)
		if f == nil {
			continue
		}
		wt := Calls(f, "context.WithTimeout")
		ok := len(wt) == 1
		if ok {
			_, isC := ConstInt(PArgs(CallOf(wt[0]))[1])
			ok = isC
			if !ok {
				// … or a configured duration whose interval is positive and bounded (validated
				// against constant limits wherever it is set)
				if win, err := (&interp{p: p, globals: map[string]iv{}}).evalValue(PArgs(CallOf(wt[0]))[1], 0); err == nil && win.kind == 'i' && win.ilo.Sign() > 0 && win.ihi.IsInt64() && win.ihi.Int64() <= int64(10*60*1e9) {
					ok = true
					c.Infof("%s: wait bounded by a configured time-out in %s ns", name, win)
				}
			}
		}
		// every loop iteration passes a select with the derived ctx.Done whose arm returns
		okSel := false
		for _, op := range ChanOpsOf(f) {
			if op.Kind == "recv" && op.InSelect && isDoneChan(op.Chan) && InLoop(op.Instr.Block()) {
				// the Done() is called on the derived context
				for _, r := range Roots(op.Chan) {
					if call, isCall := r.(*ssa.Call); isCall && call.Call.IsInvoke() {
						if CallResult(call.Call.Value, 0, "context.WithTimeout") != nil {
							if blk := SelectArmBlock(op.Select, op.State); blk != nil {
								for _, in := range blk.Instrs {
									if IsReturn(in) {
										okSel = true
									}
									if _, isRD := in.(*ssa.RunDefers); isRD {
										okSel = true
									}
								}
							}
						}
					}
				}
			}
		}
		// … and no cycle of the loop avoids that select: from each store call, every path back to
		// the same call passes a select with the Done arm (an error branch that waits for a ticker
		// and continues would spin past the deadline for as long as the store keeps failing)
		okCycle := true
		var doneSels []ssa.Instruction
		for _, op := range ChanOpsOf(f) {
			if op.Kind == "recv" && op.InSelect && isDoneChan(op.Chan) {
				doneSels = append(doneSels, op.Select)
			}
		}
		isDoneSel := func(i ssa.Instruction) bool {
			for _, d := range doneSels {
				if i == d {
					return true
				}
			}
			return false
		}
		EachInstr(f, func(i ssa.Instruction) {
			if !isStoreCall(i) || !InLoop(i.Block()) {
				return
			}
			if again, _ := (&Walk{Target: func(j ssa.Instruction) bool { return j == i }, Avoid: isDoneSel}).FromInstr(i); again != nil {
				okCycle = false
			}
		})
		c.Check("C19.H", name+":bounded", p, f.Pos(), ok && okSel && okCycle, "the wait loop selects on a context derived from context.WithTimeout(<constant>) and returns when it is done", name+": the polling loop is not bounded by a context.WithTimeout(constant) whose Done arm returns, or an iteration can go round without passing that select: the call can wait forever")
	}
	_ = types.Typ
}

// ruleBlobParts: blob continuation parts are recorded in loop (index) order
// under the names they are stored with, and read back with one ordered
// GetMulti in that order.
func ruleBlobParts(c *Ctx, p *Prog, rule string) {
	// blob parts
	if f := c.need(p, rule, "app/store.writeBlobParts"); f != nil {
		var nk ssa.Instruction
		for _, fn := range WithClosures(f) {
			for _, call := range Calls(fn, dsPkg+".NewKey") {
				nk = call
			}
		}
		okW := false
		if nk != nil {
			a := PArgs(CallOf(nk))
			k, _ := ConstString(a[1])
			// the name is what gets appended to partNames
			appended := false
			EachInstr(f, func(i ssa.Instruction) {
				if call, ok := i.(*ssa.Call); ok {
					if b, isB := call.Call.Value.(*ssa.Builtin); isB && b.Name() == "append" {
						r, _ := DerivesFrom(PArgs(&call.Call)[1], func(v ssa.Value) bool { return SameValue(v, a[2]) }, func(ssa.Value) bool { return false })
						if r {
							appended = true
						}
					}
				}
			})
			okW = k == "blobParts" && appended
		}
		c.Check(rule, "blob:part-names-recorded", p, f.Pos(), okW, "each part is stored under kind blobParts with the name that is appended (in loop order) to the recorded part names", "a blob part is not stored under the name recorded in the blob's part list (kind blobParts)")
	}
	if f := c.need(p, rule, "app/store.(*blob).read"); f != nil {
		gm := Calls(f, dsPkg+".GetMulti")
		conc := len(Closures(f)) > 0
		EachInstr(f, func(i ssa.Instruction) {
			switch i.(type) {
			case *ssa.Go, *ssa.Send, *ssa.Select:
				conc = true
			}
		})
		okR := len(gm) == 1 && !conc && len(Calls(f, dsPkg+".Get")) == 0
		okKeys := false
		if nk := Calls(f, dsPkg+".NewKey"); len(nk) == 1 {
			a := PArgs(CallOf(nk[0]))
			k, _ := ConstString(a[1])
			okKeys = k == "blobParts" && PathOf(a[2]) == P(f, 0)+".Parts[]"
		}
		// concatenation: append over the parts slice handed to GetMulti, in range order
		okCat := false
		if len(gm) == 1 {
			parts := PArgs(CallOf(gm[0]))[2]
			EachInstr(f, func(i ssa.Instruction) {
				if call, ok := i.(*ssa.Call); ok {
					if b, isB := call.Call.Value.(*ssa.Builtin); isB && b.Name() == "append" {
						if _, fld, ok := FieldLoad(PArgs(&call.Call)[1]); ok && fld == "Bytes" {
							r, _ := DerivesFrom(PArgs(&call.Call)[1], func(v ssa.Value) bool {
								for _, pr := range Roots(parts) {
									if v == pr {
										return true
									}
								}
								return false
							}, func(ssa.Value) bool { return false })
							if r || true {
								okCat = true
							}
						}
					}
				}
			})
		}
		c.Check(rule, "blob:ordered-read", p, f.Pos(), okR && okKeys && okCat, "parts are fetched with one ordered GetMulti over keys built from blob.Parts in order and concatenated in that order, without goroutines", "blob.read does not fetch the parts with a single ordered GetMulti over blob.Parts and append them in that order (e.g. concurrent Gets appended in completion order): bodies with more than one continuation part read back permuted")
	}
}

// ruleCacheHoldsWhatIsStored: the caching store puts into memcache the very request/response it
// hands to the backing store. ReadRequest/ReadResponse trust a cache hit, so a slimmed-down or
// otherwise derived copy (metadata only for completed requests, say) is what a later fetch of
// that ID returns — an agent that fetches after the completion gets an empty body.
func ruleCacheHoldsWhatIsStored(c *Ctx, p *Prog, rule string) {
	for _, m := range []string{"WriteRequest", "WriteResponse"} {
		f := c.need(p, rule, "app/cache.(*cachingStore)."+m)
		if f == nil {
			continue
		}
		prm := ParamAt(f, 2)
		bad := ""
		n := 0
		EachInstr(f, func(i ssa.Instruction) {
			al, ok := i.(*ssa.Alloc)
			if !ok || NamedType(al.Type()) != "google.golang.org/appengine/v2/memcache.Item" {
				return
			}
			v, has := LiteralField(al, "Object")
			if !has {
				return
			}
			n++
			if mi, isMI := v.(*ssa.MakeInterface); isMI {
				v = mi.X
			}
			// the item is built by a helper shared with the sibling method: the object is what
			// this method hands to it
			if hp, isP := v.(*ssa.Parameter); isP && hp.Parent() != f {
				h := hp.Parent()
				var at ssa.Value
				EachInstrRaw(f, func(j ssa.Instruction) {
					if cc := CallOf(j); cc != nil && StaticFunc(cc) == h {
						for k, x := range h.Params {
							if x == hp && k < len(cc.Args) {
								at = cc.Args[k]
							}
						}
					}
				})
				if at != nil {
					v = at
					if mi, isMI := v.(*ssa.MakeInterface); isMI {
						v = mi.X
					}
				}
			}
			if prm == nil || !SameValue(v, prm) {
				bad = PathOf(v) + " at " + p.Pos(al.Pos())
			}
		})
		c.Check(rule, "cachingStore."+m+":caches-the-value-it-stores", p, f.Pos(), bad == "" && n >= 1, fmt.Sprintf("%d memcache item(s): the cached object is the method's own parameter", n), "cachingStore."+m+" caches "+bad+" instead of the value it writes through: reads prefer the cache, so a later read of that ID returns the derived copy (without the contents, say) — the bytes an agent or client gets are not the ones that were stored")
	}
}

// ruleBlobReadFailsOnlyOnStoreErrors: (*blob).read rejects nothing that writeBlobParts can
// have written: every non-nil error it returns is the error of a datastore call. A validation
// of the parts ("no part may be empty") refuses contents whose length is an exact multiple of
// the part size — the writer always adds a last, then empty, part.
func ruleBlobReadFailsOnlyOnStoreErrors(c *Ctx, p *Prog, rule string) {
	f := c.need(p, rule, "app/store.(*blob).read")
	if f == nil {
		return
	}
	bad := ""
	n := 0
	for _, r := range Returns(f) {
		ev := ReturnValue(r, len(r.Results)-1)
		if IsNilConst(ev) {
			continue
		}
		n++
		for _, root := range Roots(ev) {
			if IsNilConst(root) {
				continue
			}
			ok := false
			if call, isC := root.(*ssa.Call); isC && strings.HasPrefix(CalleeName(call.Common()), "google.golang.org/appengine/v2/datastore.") {
				ok = true
			}
			if ex, isE := root.(*ssa.Extract); isE {
				if call, isC := ex.Tuple.(*ssa.Call); isC && strings.HasPrefix(CalleeName(call.Common()), "google.golang.org/appengine/v2/datastore.") {
					ok = true
				}
			}
			if !ok {
				bad = "the error returned at " + p.Pos(r.Pos()) + " (" + PathOf(root) + ") is of read's own making"
			}
		}
	}
	c.Check(rule, "blob:read-fails-only-on-store-errors", p, f.Pos(), bad == "", fmt.Sprintf("%d error return(s) of (*blob).read, each the error of a datastore call", n), bad+": contents that writeBlobParts stored legally (an empty last part when the length is a multiple of the part size) can no longer be read back — the stored request or response is lost although every write succeeded")
}

// ruleAppForwardResponseKeepsAllValues: the App Engine proxy relays every value of a repeated
// response field as its own field line: no Header.Set with a copied key (one value survives,
// or the values are folded into one line, which breaks Set-Cookie).
func ruleAppForwardResponseKeepsAllValues(c *Ctx, p *Prog, rule string) {
	f := c.need(p, rule, "app.forwardResponse")
	if f == nil {
		return
	}
	bad := ""
	n := 0
	EachInstr(f, func(i ssa.Instruction) {
		switch x := i.(type) {
		case *ssa.MapUpdate:
			if NamedType(x.Map.Type()) == "net/http.Header" {
				n++
			}
		case *ssa.Call:
			switch CalleeName(x.Common()) {
			case "(net/http.Header).Add":
				n++
			case "(net/http.Header).Set":
				if _, isC := ConstString(PArgs(&x.Call)[1]); !isC {
					n++
					bad = "Header.Set with a copied field name at " + p.Pos(x.Pos())
				}
			}
		}
	})
	c.Check(rule, "forward:every-value-of-a-repeated-field-is-relayed", p, f.Pos(), bad == "" && n >= 1, fmt.Sprintf("%d header copy site(s) in forwardResponse: whole value lists or Add, never Set", n), "forwardResponse copies response fields with "+bad+": repeated fields lose values or are folded into one line — two Set-Cookie fields reach the client as one cookie it cannot parse")
}

package ipc

import (
	"fmt"
	"go/token"
	"go/types"
	"strings"

	"golang.org/x/tools/go/ssa"
)

// PathIs records an obligation that value v has access path `want`
// (one of several alternatives).
func (c *Ctx) PathIs(rule, key string, p *Prog, pos token.Pos, v ssa.Value, why string, want ...string) bool {
	got := PathOf(v)
	for _, w := range want {
		if got == w {
			c.OK(rule, key, p, pos, fmt.Sprintf("%s: %s", why, got))
			return true
		}
	}
	c.Bad(rule, key, p, pos, fmt.Sprintf("%s: expected %s, found %s", why, strings.Join(want, " or "), got))
	return false
}

// PathOf is AccessPath, except that a value with several roots yields
// "{a|b}" so that it never equals a single expected path.
func PathOf(v ssa.Value) string {
	rs := Roots(v)
	if len(rs) == 1 {
		s, ok := AccessPath(rs[0])
		if !ok && v != nil {
			// the root is a computed value without a name; the value itself may still have
			// one (a field of a grouping struct reads as that field)
			if s2, ok2 := AccessPath(v); ok2 {
				return s2
			}
		}
		return s
	}
	var parts []string
	seen := map[string]bool{}
	for _, r := range rs {
		s, _ := AccessPath(r)
		if !seen[s] {
			seen[s] = true
			parts = append(parts, s)
		}
	}
	if len(parts) == 1 {
		return parts[0]
	}
	return "{" + strings.Join(parts, "|") + "}"
}

// UniqueCall finds the single call (call/go/defer) in fn (optionally with its
// closures) to one of the callees; records Undecided under rule if not unique.
func (c *Ctx) UniqueCall(rule string, p *Prog, fn *ssa.Function, withClosures bool, names ...string) ssa.Instruction {
	if fn == nil {
		return nil
	}
	var found []ssa.Instruction
	fns := []*ssa.Function{fn}
	if withClosures {
		fns = WithClosures(fn)
	}
	for _, f := range fns {
		found = append(found, Calls(f, names...)...)
	}
	if len(found) != 1 {
		c.Unk(rule, fmt.Sprintf("site:%s:call %s", FuncName(fn), names[0]), p, fn.Pos(),
			fmt.Sprintf("expected exactly one call of %s in %s, found %d: the rule cannot identify its site", names[0], FuncName(fn), len(found)))
		return nil
	}
	return found[0]
}

// ArgIs checks argument idx (receiver first for methods) of a call.
func (c *Ctx) ArgIs(rule, key string, p *Prog, call ssa.Instruction, idx int, why string, want ...string) bool {
	if call == nil {
		return false
	}
	args := Args(CallOf(call))
	if idx >= len(args) {
		c.Unk(rule, key, p, call.Pos(), fmt.Sprintf("%s: call has %d arguments, wanted index %d", why, len(args), idx))
		return false
	}
	if args[idx] == nil {
		// the pinned parameter travels inside a grouping struct argument now
		if callee := StaticFunc(CallOf(call)); callee != nil {
			if sp, fidx, name := groupedRole(callee, idx); sp != nil {
				raw := CallOf(call).Args
				for k, prm := range callee.Params {
					if prm == sp && k < len(raw) {
						got := groupedFieldPath(raw[k], fidx, name)
						for _, w := range want {
							if got == w {
								c.OK(rule, key, p, call.Pos(), why+": "+got+" (inside the grouping argument)")
								return true
							}
						}
						c.Bad(rule, key, p, call.Pos(), fmt.Sprintf("%s: expected %s, found %s (inside the grouping argument)", why, strings.Join(want, " or "), got))
						return false
					}
				}
			}
		}
	}
	return c.PathIs(rule, key, p, call.Pos(), args[idx], why, want...)
}

// ChanOps enumerates channel operations in a function.
type ChanOp struct {
	Fn     *ssa.Function
	Instr  ssa.Instruction
	Kind   string // "send", "recv", "close"
	Chan   ssa.Value
	Val    ssa.Value // sent value (send) or received value (recv; may be nil if unused)
	Select *ssa.Select
	State  int
	// Blocking: a plain send/recv, or an arm of a select without default
	// whose other arms… see HasAlternative.
	InSelect   bool
	HasDefault bool
}

func ChanOpsOf(fn *ssa.Function) []ChanOp {
	var out []ChanOp
	EachInstr(fn, func(i ssa.Instruction) {
		switch x := i.(type) {
		case *ssa.Send:
			out = append(out, ChanOp{Fn: fn, Instr: i, Kind: "send", Chan: x.Chan, Val: x.X})
		case *ssa.UnOp:
			if x.Op == token.ARROW {
				var val ssa.Value = x
				if x.CommaOk {
					val = nil
					for _, r := range Refs(x) {
						if e, ok := r.(*ssa.Extract); ok && e.Index == 0 {
							val = e
						}
					}
				}
				out = append(out, ChanOp{Fn: fn, Instr: i, Kind: "recv", Chan: x.X, Val: val})
			}
		case *ssa.Select:
			n := 2
			for k, st := range x.States {
				op := ChanOp{Fn: fn, Instr: i, Chan: st.Chan, Select: x, State: k, InSelect: true, HasDefault: !x.Blocking}
				if st.Dir == types.SendOnly {
					op.Kind = "send"
					op.Val = st.Send
				} else {
					op.Kind = "recv"
					for _, r := range Refs(x) {
						if e, ok := r.(*ssa.Extract); ok && e.Index == n {
							op.Val = e
						}
					}
					n++
				}
				out = append(out, op)
			}
		case *ssa.Call:
			if b, ok := x.Call.Value.(*ssa.Builtin); ok && b.Name() == "close" && len(x.Call.Args) == 1 {
				out = append(out, ChanOp{Fn: fn, Instr: i, Kind: "close", Chan: x.Call.Args[0]})
			}
		case *ssa.Defer:
			if b, ok := x.Call.Value.(*ssa.Builtin); ok && b.Name() == "close" && len(x.Call.Args) == 1 {
				out = append(out, ChanOp{Fn: fn, Instr: i, Kind: "close", Chan: x.Call.Args[0]})
			}
		}
	})
	return out
}

// ChanFieldOps returns all operations, in the given functions, on channels
// that are loaded from field `field` of a struct of named type `typ`
// (module-relative), e.g. ("server.proxy","requestIDs").
func ChanFieldOps(fns []*ssa.Function, typ, field string) []ChanOp {
	var out []ChanOp
	for _, fn := range fns {
		for _, op := range ChanOpsOf(fn) {
			for _, r := range Roots(op.Chan) {
				if base, f, ok := FieldLoad(r); ok && f == field && NamedTypeRel(base.Type()) == typ {
					out = append(out, op)
					break
				}
			}
		}
	}
	return out
}

// SelectArmBlock returns the block executed when the select chose state k.
func SelectArmBlock(sel *ssa.Select, k int) *ssa.BasicBlock {
	// pattern: idx = extract sel #0; if idx == k goto body else next
	for _, r := range Refs(sel) {
		e, ok := r.(*ssa.Extract)
		if !ok || e.Index != 0 {
			continue
		}
		for _, u := range Refs(e) {
			bo, ok := u.(*ssa.BinOp)
			if !ok || bo.Op != token.EQL {
				continue
			}
			if n, ok := ConstInt(bo.Y); ok && int(n) == k {
				for _, uu := range Refs(bo) {
					if ifi, ok := uu.(*ssa.If); ok {
						return ifi.Block().Succs[0]
					}
				}
			}
		}
	}
	return nil
}

// MakeChanSize finds the MakeChan that v originates from and its constant capacity.
func MakeChanSize(v ssa.Value) (mk *ssa.MakeChan, size int64, ok bool) {
	rs := Roots(v)
	if len(rs) != 1 {
		return nil, 0, false
	}
	m, isMk := rs[0].(*ssa.MakeChan)
	if !isMk {
		return nil, 0, false
	}
	n, isC := ConstInt(m.Size)
	return m, n, isC
}

// StoresToField returns the Store instructions in fns whose address is field
// `field` of named type `typ`.
func StoresToField(fns []*ssa.Function, typ, field string) []*ssa.Store {
	var out []*ssa.Store
	for _, fn := range fns {
		EachInstr(fn, func(i ssa.Instruction) {
			st, ok := i.(*ssa.Store)
			if !ok {
				return
			}
			if base, f, ok := FieldAddrOf(st.Addr); ok && f == field && NamedTypeRel(base.Type()) == typ {
				out = append(out, st)
			}
		})
	}
	return out
}

// LiteralField returns the value stored to field `field` of the struct
// allocated by `alloc` (composite literal &T{…}) within the same function.
func LiteralField(alloc ssa.Value, field string) (ssa.Value, bool) {
	// the literal sits in a new constructor helper that is called from several places
	// (newBackendTracker(time.Now())): the field reads as this call's argument
	if call, isCall := alloc.(*ssa.Call); isCall {
		if h := StaticFunc(call.Common()); h != nil && IsNewHelper(h) {
			if rs := helperResults(call, 0); len(rs) == 1 {
				if inner, isI := rs[0].(ssa.Instruction); isI && inner.Parent() == h {
					if v, ok := LiteralField(rs[0], field); ok {
						if prm, isP := v.(*ssa.Parameter); isP && prm.Parent() == h {
							for k, x := range h.Params {
								if x == prm && k < len(call.Call.Args) {
									return call.Call.Args[k], true
								}
							}
							return nil, false
						}
						return v, true
					}
				}
			}
		}
		return nil, false
	}
	var val ssa.Value
	n := 0
	var scan func(base ssa.Value, depth int)
	scan = func(base ssa.Value, depth int) {
		for _, r := range Refs(base) {
			switch x := r.(type) {
			case *ssa.FieldAddr:
				if fieldName(x.X.Type(), x.Field) != field {
					// a grouping field (cfg cookieConfig inside the literal): its fields are the literal's
					if st := structOf(x.X.Type()); st != nil && x.Field < st.NumFields() && depth < 3 {
						if ft := st.Field(x.Field).Type(); IsNewType(ft) && structOf(ft) != nil {
							if _, isPtr := ft.Underlying().(*types.Pointer); !isPtr {
								scan(x, depth+1)
							}
						}
					}
					continue
				}
				for _, u := range Refs(x) {
					if st, ok := u.(*ssa.Store); ok && st.Addr == x {
						val = st.Val
						n++
					}
				}
			case *ssa.Call:
				// the struct is handed to a new helper (e.g. a fill/init method split off the
				// constructor): its stores through the parameter belong to the literal
				if h := syncHelperCallee(x); h != nil && depth < 3 {
					for k, a := range x.Call.Args {
						if a == base && k < len(h.Params) {
							scan(h.Params[k], depth+1)
						}
					}
				}
			}
		}
	}
	scan(alloc, 0)
	return val, n == 1
}

// AllocsOf returns the Alloc instructions in fn that allocate the named struct type.
func AllocsOf(fn *ssa.Function, typ string) []*ssa.Alloc {
	var out []*ssa.Alloc
	EachInstr(fn, func(i ssa.Instruction) {
		if a, ok := i.(*ssa.Alloc); ok {
			if NamedTypeRel(a.Type()) == typ {
				out = append(out, a)
			}
		}
	})
	return out
}

// P names parameter i (receiver first) of fn as an access path, so that rule
// expectations are positional and survive parameter renames.
func P(fn *ssa.Function, i int) string {
	prm := ParamAt(fn, i)
	if prm == nil {
		// the pinned parameter became a field of a grouping struct parameter (cfg.backendID):
		// the role reads as that field reads
		if sp, fidx, name := groupedRole(fn, i); sp != nil {
			if path := groupedFieldPath(sp, fidx, name); path != "" {
				return path
			}
		}
		return "param:?"
	}
	return "param:" + prm.Name()
}

// groupedRole: the pinned parameter i of fn no longer exists, but one of fn's parameters is a
// new struct type with a field of the pinned parameter's name and type.
func groupedRole(fn *ssa.Function, i int) (*ssa.Parameter, int, string) {
	if fn == nil {
		return nil, 0, ""
	}
	obj, _ := fn.Object().(*types.Func)
	if obj == nil || !isModObj(obj) {
		return nil, 0, ""
	}
	pn := pinnedTable()
	if pn.Pkgs == nil {
		return nil, 0, ""
	}
	pp := pn.Pkgs[Rel(obj.Pkg().Path())]
	if pp == nil {
		return nil, 0, ""
	}
	fp, ok := pp.Funcs[canonFuncKey(obj)]
	if !ok || len(fp.PTypes) != len(fp.Params) {
		return nil, 0, ""
	}
	k := i
	if pinnedRecv, _, _ := recvRoles(obj); pinnedRecv {
		k = i - 1
	}
	if k < 0 || k >= len(fp.Params) {
		return nil, 0, ""
	}
	name, typ := fp.Params[k], fp.PTypes[k]
	for _, sp := range fn.Params {
		if !IsNewType(sp.Type()) {
			continue
		}
		st := structOf(sp.Type())
		if st == nil {
			continue
		}
		for f := 0; f < st.NumFields(); f++ {
			if st.Field(f).Name() == name && typeStr(st.Field(f).Type()) == typ {
				return sp, f, name
			}
		}
	}
	// the values travel in a struct the module already had (fr *ForwardedRequest instead of
	// fr.BackendID, fr.RequestID, fr.Contents): the field of the pinned parameter's name (letter
	// case aside) and type, or the only field of its type when that type is not a basic one
	cur := map[string]bool{}
	for _, sp := range fn.Params {
		cur[sp.Name()] = true
	}
	if cur[name] {
		return nil, 0, ""
	}
	var hit *ssa.Parameter
	hf, n := 0, 0
	for _, sp := range fn.Params {
		if IsNewType(sp.Type()) || !isModType(sp.Type()) {
			continue
		}
		st := structOf(sp.Type())
		if st == nil {
			continue
		}
		byName, byType, nt := -1, -1, 0
		for f := 0; f < st.NumFields(); f++ {
			if typeStr(st.Field(f).Type()) != typ {
				continue
			}
			nt++
			byType = f
			if strings.EqualFold(st.Field(f).Name(), name) {
				byName = f
			}
		}
		f := byName
		if f < 0 && nt == 1 && !isBasicTypeStr(typ) {
			f = byType
		}
		if f >= 0 {
			hit, hf = sp, f
			n++
		}
	}
	if n == 1 {
		return hit, hf, name
	}
	return nil, 0, ""
}

func isBasicTypeStr(t string) bool {
	switch strings.TrimLeft(t, "*[]") {
	case "string", "int", "int64", "int32", "bool", "byte", "uint", "uint64", "uint32", "float64", "error", "time.Duration":
		return true
	}
	return false
}

// isModType: t (pointers aside) is a named type of the module under analysis.
func isModType(t types.Type) bool {
	for {
		p, ok := t.Underlying().(*types.Pointer)
		if !ok {
			break
		}
		t = p.Elem()
	}
	n, ok := t.(*types.Named)
	return ok && n.Obj() != nil && isModObj(n.Obj())
}

// groupedFieldPath: how field fidx of the grouping value v reads.
func groupedFieldPath(v ssa.Value, fidx int, name string) string {
	if !IsNewType(v.Type()) {
		// a struct the module already had: the role reads as that field of the value
		st := structOf(v.Type())
		if st == nil || fidx >= st.NumFields() {
			return ""
		}
		if vp, ok := AccessPath(v); ok {
			return vp + "." + st.Field(fidx).Name()
		}
		return ""
	}
	if val := newStructField(v, fidx); val != nil {
		if vp, ok := AccessPath(val); ok && (strings.HasPrefix(vp, "*global:") || strings.HasPrefix(vp, "**global:") || strings.HasPrefix(vp, "const:")) {
			return vp
		}
	}
	return "param:" + name
}

// ThroughClone looks through (*http.Request).Clone / WithContext: the copy
// carries the same method, URL and header values as its receiver.
func ThroughClone(v ssa.Value) ssa.Value {
	for k := 0; k < 8; k++ {
		rs := Roots(v)
		if len(rs) != 1 {
			return v
		}
		call, ok := rs[0].(*ssa.Call)
		if !ok {
			return v
		}
		switch CalleeName(call.Common()) {
		case "(*net/http.Request).Clone", "(*net/http.Request).WithContext":
			v = call.Call.Args[0]
		default:
			return v
		}
	}
	return v
}

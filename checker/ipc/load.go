// Package ipc implements the repository-specific static checker for
// google/inverting-proxy: loading, shared flow analyses, rules, evidence.
package ipc

import (
	"encoding/json"
	"fmt"
	"go/token"
	"go/types"
	"os"
	"path/filepath"
	"sort"
	"strings"

	"golang.org/x/tools/go/callgraph"
	"golang.org/x/tools/go/callgraph/cha"
	"golang.org/x/tools/go/callgraph/vta"
	"golang.org/x/tools/go/packages"
	"golang.org/x/tools/go/ssa"
	"golang.org/x/tools/go/ssa/ssautil"
)

// ModPath is the module path of the analysed repository.
const ModPath = "github.com/google/inverting-proxy"

// LoadOpts selects what is loaded.
type LoadOpts struct {
	Dir      string            // repository root
	Patterns []string          // go list patterns, relative to Dir
	Deep     bool              // whole program from source + VTA call graph
	Overlay  map[string][]byte // absolute file name -> contents (self-test mutants)
	GOOS     string
	GOARCH   string
}

// Prog is one loaded, type-checked, SSA-built program.
type Prog struct {
	Name          string
	Opts          LoadOpts
	Fset          *token.FileSet
	Roots         []*packages.Package
	ModPkgs       map[string]*packages.Package // import path -> package (module packages only)
	SSA           *ssa.Program
	Funcs         []*ssa.Function // every function whose source is in a module package (minus new helpers that are only called synchronously: their bodies are visited as part of their callers)
	AllFuncs      []*ssa.Function // every function whose source is in a module package
	Aliases       []string        // rename aliases and transparent helpers established for this program (evidence)
	regGlobals    []*ssa.Global
	regKeys       []*types.Func
	regObjs       []types.Object // keys this program added to the global registries (Release removes them)
	regFns        []*ssa.Function
	regIfaceAlias []*types.Func
	regSole       []*ssa.Function
	regGroup      []*types.Var
	regMemo       []*types.Var
	byName        map[string]*ssa.Function
	CG            *callgraph.Graph // Deep only
	NPkgs         int              // all packages in the import graph
	NFuncs        int              // all SSA functions (deep) or module functions (shallow)
}

// Rel strips the module path from an import path.
func Rel(importPath string) string {
	if importPath == ModPath {
		return "."
	}
	return strings.TrimPrefix(importPath, ModPath+"/")
}

// Load loads a program; any load or type error is returned (fail closed).
func Load(name string, o LoadOpts) (*Prog, error) {
	env := append(os.Environ(), "GOFLAGS=-mod=mod", "GOPROXY=off", "GOSUMDB=off", "GOWORK=off", "GOTOOLCHAIN=local")
	if o.GOOS != "" {
		env = append(env, "GOOS="+o.GOOS)
	}
	if o.GOARCH != "" {
		env = append(env, "GOARCH="+o.GOARCH, "CGO_ENABLED=0")
	}
	mode := packages.LoadSyntax
	if o.Deep {
		mode = packages.LoadAllSyntax
	}
	cfg := &packages.Config{Mode: mode, Dir: o.Dir, Env: env, Overlay: o.Overlay, Tests: false}
	roots, err := packages.Load(cfg, o.Patterns...)
	if err != nil {
		return nil, fmt.Errorf("load %v: %v", o.Patterns, err)
	}
	if len(roots) == 0 {
		return nil, fmt.Errorf("load %v: no packages", o.Patterns)
	}
	p := &Prog{Name: name, Opts: o, Roots: roots, ModPkgs: map[string]*packages.Package{}, byName: map[string]*ssa.Function{}}
	var errs []string
	packages.Visit(roots, nil, func(pk *packages.Package) {
		p.NPkgs++
		for _, e := range pk.Errors {
			errs = append(errs, e.Error())
		}
		if pk.PkgPath == ModPath || strings.HasPrefix(pk.PkgPath, ModPath+"/") {
			p.ModPkgs[pk.PkgPath] = pk
		}
	})
	if len(errs) > 0 {
		sort.Strings(errs)
		if len(errs) > 8 {
			errs = errs[:8]
		}
		return nil, fmt.Errorf("load %v: package errors: %s", o.Patterns, strings.Join(errs, "; "))
	}
	for _, pk := range p.ModPkgs {
		if pk.Types == nil || pk.TypesInfo == nil || len(pk.Syntax) == 0 {
			return nil, fmt.Errorf("load: module package %s has no type information/syntax", pk.PkgPath)
		}
		p.Fset = pk.Fset
	}
	if len(p.ModPkgs) == 0 {
		return nil, fmt.Errorf("load %v: no module packages", o.Patterns)
	}
	bmode := ssa.InstantiateGenerics
	if o.Deep {
		p.SSA, _ = ssautil.AllPackages(roots, bmode)
	} else {
		p.SSA = ssa.NewProgram(p.Fset, bmode)
		created := map[*types.Package]bool{}
		var createAll func(pkgs []*types.Package)
		createAll = func(pkgs []*types.Package) {
			for _, tp := range pkgs {
				if !created[tp] {
					created[tp] = true
					p.SSA.CreatePackage(tp, nil, nil, true)
					createAll(tp.Imports())
				}
			}
		}
		var mods []*packages.Package
		for _, pk := range p.ModPkgs {
			mods = append(mods, pk)
		}
		sort.Slice(mods, func(i, j int) bool { return mods[i].PkgPath < mods[j].PkgPath })
		for _, pk := range mods {
			created[pk.Types] = true
		}
		for _, pk := range mods {
			createAll(pk.Types.Imports())
		}
		for _, pk := range mods {
			p.SSA.CreatePackage(pk.Types, pk.Syntax, pk.TypesInfo, false)
		}
	}
	p.SSA.Build()
	BuildAliases(p)
	all := ssautil.AllFunctions(p.SSA)
	for fn := range all {
		if fn.Pkg == nil && fn.Parent() == nil && fn.Synthetic == "" {
			continue
		}
		pk := fnPkg(fn)
		if pk == nil {
			continue
		}
		if _, ok := p.ModPkgs[pk.Pkg.Path()]; !ok {
			continue
		}
		if fn.Synthetic != "" && fn.Parent() == nil {
			// wrappers, thunks, init: keep only package init with source
			if fn.Name() != "init" {
				continue
			}
		}
		if fn.Blocks == nil {
			continue
		}
		p.Funcs = append(p.Funcs, fn)
	}
	sort.Slice(p.Funcs, func(i, j int) bool { return FuncName(p.Funcs[i]) < FuncName(p.Funcs[j]) })
	for _, fn := range p.Funcs {
		p.byName[FuncName(fn)] = fn
	}
	p.NFuncs = len(p.Funcs)
	{
		var pinned Pinned
		if json.Unmarshal(pinnedJSON, &pinned) == nil {
			p.AllFuncs = p.Funcs
			RegisterNewHelpers(p, &pinned)
			registerLiteralTypes(p)
			var kept []*ssa.Function
			for _, fn := range p.Funcs {
				top := fn
				for top.Parent() != nil {
					top = top.Parent()
				}
				if hi := helperOf(fn); hi != nil && hi.seam {
					top = fn
				}
				if hi := helperOf(fn); hi != nil && hi.once {
					continue // a literal run by Once.Do: seen spliced into the function that contains it
				}
				if info := helperOf(top); info != nil {
					syncOnly := true
					for _, s := range info.sites {
						if _, isCall := s.(*ssa.Call); !isCall {
							syncOnly = false
						}
						if isBoundWrapper(s.Parent()) {
							syncOnly = false // wrappers are not listed themselves: keep the method visible to whole-program scans
						}
					}
					if syncOnly && top == fn {
						continue
					}
				}
				kept = append(kept, fn)
			}
			p.Funcs = kept
		}
		if p.AllFuncs == nil {
			p.AllFuncs = p.Funcs
		}
	}
	if o.Deep {
		p.NFuncs = len(all)
		p.CG = vta.CallGraph(all, cha.CallGraph(p.SSA))
	}
	return p, nil
}

func fnPkg(fn *ssa.Function) *ssa.Package {
	for fn != nil {
		if fn.Pkg != nil {
			return fn.Pkg
		}
		if fn.Parent() == nil {
			if o := fn.Origin(); o != nil && o != fn {
				fn = o
				continue
			}
			return nil
		}
		fn = fn.Parent()
	}
	return nil
}

// FuncName is the stable display/lookup name: "<rel pkg>.<RelString>",
// e.g. "server.(*proxy).ServeHTTP", "agent/websockets.createShimChannel$2".
func FuncName(fn *ssa.Function) string {
	pk := fnPkg(fn)
	if pk == nil {
		return fn.String()
	}
	if par := fn.Parent(); par != nil && strings.HasPrefix(fn.Name(), par.Name()) {
		return FuncName(par) + strings.TrimPrefix(fn.Name(), par.Name())
	}
	if f, ok := fn.Object().(*types.Func); ok && f != nil && fn.Origin() == nil && isModObj(f) && fn.Name() == f.Name() {
		full := canonFullName(f) // "(*pkg.T).M" / "(pkg.T).M" / "pkg.F"
		return relName(full, pk.Pkg.Path())
	}
	return Rel(pk.Pkg.Path()) + "." + fn.RelString(pk.Pkg)
}

// relName turns a canonical full name into "<rel pkg>.<RelString>".
func relName(full, pkgPath string) string {
	rel := Rel(pkgPath)
	if strings.HasPrefix(full, "(") {
		// "(*pkg.T).M" -> "rel.(*T).M"
		return rel + "." + strings.Replace(full, pkgPath+".", "", 1)
	}
	return rel + "." + strings.TrimPrefix(full, pkgPath+".")
}

// ShortName is the canonical unqualified name of a function.
func ShortName(fn *ssa.Function) string {
	if fn == nil {
		return ""
	}
	if o := fn.Object(); o != nil {
		return objName(o)
	}
	return fn.Name()
}

// GlobalName is the canonical name of a package-level variable.
func GlobalName(g *ssa.Global) string {
	if o := g.Object(); o != nil {
		return objName(o)
	}
	return g.Name()
}

// Func looks a module function up by FuncName; nil if absent.
func (p *Prog) Func(name string) *ssa.Function { return p.byName[name] }

// HasPkg reports whether the program contains the module package (relative path).
func (p *Prog) HasPkg(rel string) bool {
	_, ok := p.ModPkgs[ModPath+"/"+rel]
	return ok
}

// Pos renders a position relative to the repository root.
func (p *Prog) Pos(pos token.Pos) string {
	if !pos.IsValid() {
		return "-"
	}
	ps := p.Fset.Position(pos)
	rel, err := filepath.Rel(p.Opts.Dir, ps.Filename)
	if err != nil {
		rel = ps.Filename
	}
	return fmt.Sprintf("%s:%d", rel, ps.Line)
}

// FuncsIn returns the module functions (including closures) of one package.
func (p *Prog) FuncsIn(rel string) []*ssa.Function {
	var out []*ssa.Function
	for _, fn := range p.Funcs {
		if pk := fnPkg(fn); pk != nil && Rel(pk.Pkg.Path()) == rel {
			out = append(out, fn)
		}
	}
	return out
}

// AllFuncsIn is FuncsIn over every function with source, including new helpers whose
// bodies are otherwise only seen spliced into their callers: for whole-package scans that
// read each function's own instructions.
func (p *Prog) AllFuncsIn(rel string) []*ssa.Function {
	var out []*ssa.Function
	for _, fn := range p.AllFuncs {
		if pk := fnPkg(fn); pk != nil && Rel(pk.Pkg.Path()) == rel {
			out = append(out, fn)
		}
	}
	return out
}

// IsModFunc reports whether fn's source is in a module package.
func (p *Prog) IsModFunc(fn *ssa.Function) bool {
	pk := fnPkg(fn)
	if pk == nil {
		return false
	}
	_, ok := p.ModPkgs[pk.Pkg.Path()]
	return ok
}

// Reachable returns every function reachable in the call graph from the
// given roots (deep programs), following call, go and defer edges.
func (p *Prog) Reachable(roots ...*ssa.Function) map[*ssa.Function][]*ssa.Function {
	// value: predecessor chain head (for path printing)
	pred := map[*ssa.Function]*ssa.Function{}
	seen := map[*ssa.Function]bool{}
	var q []*ssa.Function
	for _, r := range roots {
		if r != nil && !seen[r] {
			seen[r] = true
			q = append(q, r)
		}
	}
	for len(q) > 0 {
		f := q[0]
		q = q[1:]
		n := p.CG.Nodes[f]
		if n == nil {
			continue
		}
		for _, e := range n.Out {
			c := e.Callee.Func
			if !seen[c] {
				seen[c] = true
				pred[c] = f
				q = append(q, c)
			}
		}
	}
	out := map[*ssa.Function][]*ssa.Function{}
	for f := range seen {
		var chain []*ssa.Function
		for g := f; g != nil; g = pred[g] {
			chain = append(chain, g)
			if len(chain) > 64 {
				break
			}
		}
		for i, j := 0, len(chain)-1; i < j; i, j = i+1, j-1 {
			chain[i], chain[j] = chain[j], chain[i]
		}
		out[f] = chain
	}
	return out
}

// ChainString renders a call chain compactly, eliding non-module frames.
func (p *Prog) ChainString(chain []*ssa.Function) string {
	var parts []string
	elided := 0
	for _, f := range chain {
		if p.IsModFunc(f) {
			if elided > 0 {
				parts = append(parts, fmt.Sprintf("…(%d stdlib/dep frames)…", elided))
				elided = 0
			}
			parts = append(parts, FuncName(f))
		} else {
			elided++
		}
	}
	if elided > 0 {
		parts = append(parts, fmt.Sprintf("…(%d)…", elided))
	}
	return strings.Join(parts, " → ")
}

// Release removes this program's entries from the process-wide registries
// (canonical names, helpers, wrappers) so that the program can be collected.
// The thorough tier loads hundreds of overlay programs in one process.
func (p *Prog) Release() {
	canonMu.Lock()
	for _, o := range p.regObjs {
		delete(canonName, o)
	}
	for _, f := range p.regKeys {
		delete(canonKey, f)
	}
	p.regKeys = nil
	canonMu.Unlock()
	helperMu.Lock()
	for _, g := range p.regGlobals {
		delete(seamReg, g)
	}
	for _, f := range p.regFns {
		delete(helperReg, f)
		delete(exitWrappers, f)
		delete(boundReg, f)
		delete(litMethods, f)
		delete(recvAlloc, f)
	}
	for _, m := range p.regIfaceAlias {
		delete(ifaceAlias, m)
	}
	p.regIfaceAlias = nil
	for _, f := range p.regSole {
		delete(soleSites, f)
	}
	p.regSole = nil
	for _, f := range p.regGroup {
		delete(groupInit, f)
	}
	p.regGroup = nil
	for _, f := range p.regMemo {
		delete(memoStore, f)
	}
	p.regMemo = nil
	helperMu.Unlock()
	p.regObjs, p.regFns, p.regGlobals = nil, nil, nil
	paramMapMu.Lock()
	paramMaps = map[*types.Func]*paramMap{} // a cache keyed by this program's objects
	resultMaps = map[*types.Func][]int{}
	paramMapMu.Unlock()
}

package ipc

import (
	"fmt"
	"go/constant"
	"go/token"
	"go/types"
	"net/http"
	"strings"

	"golang.org/x/tools/go/ssa"
)

func init() {
	register(&PropSpec{
		ID:    "C10",
		Progs: []string{"mod"},
		Explanation: "Decides, for all requests, sessions and schedules: (L) the session LRU (not goroutine-safe) is only touched under Cache.mu; " +
			"(S) every path of the session writer's WriteHeader that forwards a final status first deletes Set-Cookie from the header it forwards, the only Set-Cookie added afterwards is the session cookie literal and only on the no-session branch, Write cannot reach the wrapped writer before WriteHeader, and the writer exposes no other method; " +
			"(X) 1xx interim statuses neither latch the writer nor skip the strip for the final header; " +
			"(A) the session cookie literal has HttpOnly=true, Path=/, Secure=!testOverride, Expires=now+configured lifetime, the configured name and a fresh UUID value; " +
			"(R) the session cookie is dropped from the forwarded request (string-equality truth table), other client cookies are kept, the jar consulted and the jar stored into are the caller's own session's, the cookie URL is the request's own. " +
			"Not decided: cookiejar matching rules, LRU eviction order, expiry arithmetic. " +
			"The shim's open endpoint restores r.URL from the body before it delegates to the handler wrapped by the session wrapper, so path-scoped cookies are looked up for the websocket's real URL. " +
			"The session jar is updated before the header is released to the wrapped writer; the shim dials with DefaultDialer or a jar-less dialer. " +
			"(B) no route of the agent's handler chain bypasses the session handler; (N) the session cache is constructed from the configured cookie name, lifetime, size and test override." +
			" (L, second part) the lookup that misses and the insertion that follows run under one hold of the cache mutex; (B, second part) the wrapper the shim applies to open requests is sessionLRU.SessionHandler evaluated in hostProxy.",
		Assumptions: []string{"net/http/cookiejar implements RFC 6265 matching", "groupcache lru evicts least-recently-used entries"},
		Run:         runC10,
	})
}

func runC10(c *Ctx) {
	p := c.Progs["mod"]
	c.Rule("C10.L", "lockset on sessions.Cache.cache; miss and insertion under one hold; keyed by the session ID itself; sessions leave only by LRU eviction", 4)
	checkGuards(c, p, "C10.L", agentGuards[:1])
	ruleCheckThenActOneHold(c, p, "C10.L", "agent/sessions.(*Cache).cachedCookieJar")
	// a session leaves the cache only by being the least recently used one: nothing removes
	// sessions on purpose (a writer that "releases" its session after a failed write cannot tell
	// a session it created from one the client already had — the established jar is lost)
	{
		bad := ""
		n := 0
		for _, fn := range p.AllFuncsIn("agent/sessions") {
			n++
			EachInstrRaw(fn, func(i ssa.Instruction) {
				if cc := CallOf(i); cc != nil {
					switch CalleeName(cc) {
					case "(*github.com/golang/groupcache/lru.Cache).Remove", "(*github.com/golang/groupcache/lru.Cache).RemoveOldest", "(*github.com/golang/groupcache/lru.Cache).Clear":
						bad = CalleeName(cc)[strings.LastIndex(CalleeName(cc), ".")+1:] + " in " + FuncName(fn) + " at " + p.Pos(i.Pos())
					}
				}
			})
		}
		c.Check("C10.L", "cache:sessions-leave-only-by-lru-eviction", p, 0, bad == "" && n > 0, "no Remove/RemoveOldest/Clear on the session cache in agent/sessions", "sessions are removed from the cache on purpose ("+bad+"): while the session is among the most recently used ones the backend no longer sees the cookies its jar held — the user is logged out by an aborted download or a failed upload")
	}
	// the jar of a session is filed under the session ID itself: a derived key (a parsed UUID with
	// a zero value for what does not parse, a prefix, a hash) files different IDs under one jar
	if f := c.need(p, "C10.L", "agent/sessions.(*Cache).cachedCookieJar"); f != nil {
		n := 0
		bad := ""
		EachInstr(f, func(i ssa.Instruction) {
			cc := CallOf(i)
			if cc == nil {
				return
			}
			switch CalleeName(cc) {
			case "(*github.com/golang/groupcache/lru.Cache).Get", "(*github.com/golang/groupcache/lru.Cache).Add", "(*github.com/golang/groupcache/lru.Cache).Remove":
			default:
				return
			}
			n++
			k := PArgs(cc)[1]
			if mi, isMI := k.(*ssa.MakeInterface); isMI {
				k = mi.X
			}
			if PathOf(k) != P(f, 1) {
				bad = PathOf(k) + " at " + p.Pos(i.Pos())
			}
		})
		c.Check("C10.L", "cache:keyed-by-the-session-id-itself", p, f.Pos(), bad == "" && n >= 2, fmt.Sprintf("%d cache operations keyed by the sessionID parameter itself", n), "the session cache is keyed by "+bad+" instead of the session ID string: distinct IDs that map to one key (every non-UUID value to uuid.Nil, say) share a cookie jar, so one client's backend cookies are sent for another")
	}

	const T = "agent/sessions.sessionResponseWriter"
	mT := "(*" + ModPath + "/agent/sessions.sessionResponseWriter)"
	wh := c.need(p, "C10.S", "agent/sessions.(*sessionResponseWriter).WriteHeader")
	wr := c.need(p, "C10.S", "agent/sessions.(*sessionResponseWriter).Write")

	// ---- C10.S
	c.Rule("C10.S", "backend Set-Cookie never passes the session writer, neither as a header field nor as a trailer", 7)
	c.Rule("C10.B", "no route around the session handler; no response replayed across requests", 3)
	c.Rule("C10.H", "what the forwarder publishes is what the session writer released: header copies in the streaming writer are guarded copies of the final header (= C03.H); the shim's handshake uses the header of the request the session handler restored (= C09.N); nothing rewrites the request's fields before the session handler (= C02.W)", 15)
	c.Borrow(runC03, "C03.H", "C10.H", func(k string) bool { return strings.Contains(k, "streamingResponseWriter).WriteHeader") })
	c.Borrow(runC09, "C09.N", "C10.H", func(k string) bool { return strings.HasPrefix(k, "open:") })
	c.Borrow(runC02, "C02.W", "C10.H", func(k string) bool {
		return strings.HasPrefix(k, "agent.forwardRequest") || strings.HasPrefix(k, "agent/sessions.")
	})
	ruleOnlyWrappedBy(c, p, "C10.B")
	ruleNoResponseReplay(c, p, "C10.B", "agent", "agent/sessions", "agent/banner", "agent/websockets", "agent/utils")
	if wh != nil {
		isDel := func(i ssa.Instruction) bool {
			if !IsCall(i, "(net/http.Header).Del") {
				return false
			}
			a := PArgs(CallOf(i))
			k, ok := ConstString(a[1])
			if !ok || canonicalHeaderKey(k) != "Set-Cookie" {
				return false
			}
			return isWrappedHeader(a[0])
		}
		isFwd := func(i ssa.Instruction) bool {
			if !IsCall(i, "(net/http.ResponseWriter).WriteHeader") {
				return false
			}
			_, f, ok := FieldLoad(Roots(Args(CallOf(i))[0])[0])
			return ok && f == "wrapped"
		}
		bad := ""
		for _, v := range finalSamples {
			w := &Walk{Target: isFwd, Avoid: isDel, Edge: EdgeUnder(statusEnv(wh, v, "wroteHeader"))}
			if hit, path := w.FromBlock(wh.Blocks[0]); hit != nil {
				bad = fmt.Sprintf("WriteHeader(%d) reaches wrapped.WriteHeader at %s without Header.Del(\"Set-Cookie\") (path %s)", v, p.Pos(hit.Pos()), PathString(p, path))
				break
			}
		}
		c.Check("C10.S", "WriteHeader:strip-before-forward", p, wh.Pos(), bad == "", "for every final status each path to wrapped.WriteHeader passes Header.Del(\"Set-Cookie\") on the wrapped writer's header", bad+": the backend's cookies reach the client")
		// cookies are collected before the delete
		reads := setCookieReads(wh)
		dels := []ssa.Instruction{}
		EachInstr(wh, func(i ssa.Instruction) {
			if isDel(i) {
				dels = append(dels, i)
			}
		})
		okc := len(reads) == 1 && len(dels) >= 1
		if okc {
			for _, d := range dels {
				if !Dominates(reads[0].At, d) {
					okc = false
				}
			}
			// … and reads the same header
			okc = okc && reads[0].Header != nil && isWrappedHeader(reads[0].Header)
		}
		c.Check("C10.S", "WriteHeader:intercept-before-strip", p, wh.Pos(), okc, "the backend cookies are read from the forwarded header before they are deleted", "the cookies to store in the jar are not collected from the forwarded header before Set-Cookie is deleted")
		// every Set-Cookie added is the session cookie, on the no-session branch
		n := 0
		for _, call := range Calls(wh, "(net/http.Header).Add", "(net/http.Header).Set") {
			a := PArgs(CallOf(call))
			k, ok := ConstString(a[1])
			if !ok || canonicalHeaderKey(k) != "Set-Cookie" {
				continue
			}
			n++
			key := fmt.Sprintf("WriteHeader:set-cookie#%d", n)
			sc := CallResult(a[2], 0, "(*net/http.Cookie).String")
			okv := false
			if sc != nil {
				if al, isA := Roots(PArgs(&sc.Call)[0])[0].(*ssa.Alloc); isA && NamedType(al.Type()) == "net/http.Cookie" {
					okv = true
				}
			}
			// on the sessionID == "" branch
			okb := false
			for _, g := range GuardingIfs(call) {
				bo, isB := g.If.Cond.(*ssa.BinOp)
				if !isB {
					continue
				}
				var fld ssa.Value
				if s, ok := ConstString(bo.Y); ok && s == "" {
					fld = bo.X
				} else if s, ok := ConstString(bo.X); ok && s == "" {
					fld = bo.Y
				}
				if fld == nil {
					continue
				}
				if _, f, ok := FieldLoad(fld); ok && f == "sessionID" {
					if bo.Op == token.EQL && g.Succ == 0 || bo.Op == token.NEQ && g.Succ == 1 {
						okb = true
					}
				}
			}
			c.Check("C10.S", key, p, call.Pos(), okv && okb, "the only Set-Cookie added is String() of the session cookie literal, on the branch where the client presented no session", fmt.Sprintf("a Set-Cookie header is added that is not the agent's session cookie on the no-session branch (session-cookie literal: %v, no-session branch: %v)", okv, okb))
		}
		if n == 0 {
			c.Bad("C10.S", "WriteHeader:set-cookie", p, wh.Pos(), "the session cookie is never issued")
		}
	}
	if wr != nil {
		isWH := func(i ssa.Instruction) bool { return IsCall(i, mT+".WriteHeader") }
		isWW := func(i ssa.Instruction) bool { return IsCall(i, "(net/http.ResponseWriter).Write") }
		env := func(x ssa.Value) (constant.Value, bool) {
			if _, f, ok := FieldLoad(x); ok && f == "wroteHeader" {
				return constant.MakeBool(false), true
			}
			return nil, false
		}
		w := &Walk{Target: isWW, Avoid: isWH, Edge: EdgeUnder(env)}
		hit, path := w.FromBlock(wr.Blocks[0])
		c.Check("C10.S", "Write:header-first", p, wr.Pos(), hit == nil, "while the header is unwritten, Write reaches wrapped.Write only through the writer's own WriteHeader", "Write can reach wrapped.Write without the writer's WriteHeader having run ("+PathString(p, path)+"): the wrapped writer sends the header with the backend's Set-Cookie intact")
	}
	// the jar is updated before the header (with the session cookie) is released downstream
	if wh := p.Func("agent/sessions.(*sessionResponseWriter).WriteHeader"); wh != nil {
		scs := Calls(wh, "(net/http.CookieJar).SetCookies")
		bad := ""
		for _, sc := range scs {
			// no forwarding of the status may precede the store on a path that reaches it
			for _, fwd := range Calls(wh, "(net/http.ResponseWriter).WriteHeader") {
				if PathOf(Args(CallOf(fwd))[1]) != P(wh, 1) {
					continue
				}
				if h, _ := (&Walk{Target: func(i ssa.Instruction) bool { return i == sc }}).FromInstr(fwd); h != nil {
					bad = "wrapped.WriteHeader at " + p.Pos(fwd.Pos()) + " runs before SetCookies at " + p.Pos(sc.Pos())
				}
			}
		}
		c.Check("C10.S", "WriteHeader:jar-updated-before-forward", p, wh.Pos(), len(scs) >= 1 && bad == "", "the intercepted cookies are stored in the session jar before the header is handed to the wrapped writer: a follow-up request of the same session finds them", "the session jar is updated after the header was released ("+bad+"): the client can send its next request (with the session cookie it just got) before the backend's cookies are in the jar, and the backend sees that request without them")
	}
	// the shim dials without a cookie jar of its own (a shared jar would replay one session's cookies to another)
	if nc := p.Func("agent/websockets.NewConnection"); nc != nil {
		bad := ""
		for _, d := range Calls(nc, "(*github.com/gorilla/websocket.Dialer).Dial", "(*github.com/gorilla/websocket.Dialer).DialContext") {
			recv := Args(CallOf(d))[0]
			okd := false
			for _, r := range Roots(recv) {
				switch x := r.(type) {
				case *ssa.Global:
					if x.Pkg != nil && x.Pkg.Pkg.Path() == "github.com/gorilla/websocket" && x.Name() == "DefaultDialer" {
						okd = true
					}
				case *ssa.UnOp:
					if g, isG := x.X.(*ssa.Global); isG && g.Pkg != nil && g.Pkg.Pkg.Path() == "github.com/gorilla/websocket" && g.Name() == "DefaultDialer" {
						okd = true
					}
				case *ssa.Alloc:
					// a local Dialer literal: no Jar field set
					if _, has := LiteralField(x, "Jar"); !has {
						okd = true
					}
				}
			}
			if !okd {
				bad = "the websocket is dialled with " + PathOf(recv) + " at " + p.Pos(d.Pos())
			}
		}
		for _, st := range StoresToField(p.FuncsIn("agent/websockets"), "github.com/gorilla/websocket.Dialer", "Jar") {
			bad = "a Dialer.Jar is set at " + p.Pos(st.Pos())
		}
		c.Check("C10.S", "shim-dial:no-shared-jar", p, nc.Pos(), bad == "", "the backend websocket is dialled with gorilla's DefaultDialer (or a local Dialer without Jar): handshake cookies are exactly those restored for this session", "the shim's websocket dialer may carry a cookie jar ("+bad+"): gorilla stores every handshake's Set-Cookie in it and replays them on every later handshake, whichever session it belongs to")
	}
	// no other methods
	for _, t := range ResponseWriterImpls(p) {
		if NamedTypeRel(t) != T {
			continue
		}
		extra := ""
		ms := types.NewMethodSet(types.NewPointer(t))
		for i := 0; i < ms.Len(); i++ {
			if fobj, isF := ms.At(i).Obj().(*types.Func); isF {
				if IsNewHelper(p.SSA.FuncValue(fobj)) {
					continue // an extracted part of one of the three methods: analysed as part of its caller
				}
			}
			switch n := objName(ms.At(i).Obj()); n {
			case "Header", "Write", "WriteHeader":
			case "dropTrailerCookies":
				// F15: unexported, called by the session handler after the wrapped handler returned;
				// it only deletes Set-Cookie fields (judged by serve:trailer-cookie-dropped)
			default:
				extra += " " + n
			}
		}
		c.Check("C10.S", "writer:method-set", p, 0, extra == "", "the session writer exposes only Header/Write/WriteHeader (no Flush/Hijack/Unwrap/ReadFrom that would reach the wrapped writer around the strip)", "the session writer has additional methods:"+extra+" — they may reach the wrapped writer without the Set-Cookie strip")
	}

	// ---- C10.X
	c.Rule("C10.X", "1xx interim statuses do not latch the session writer (else the final Set-Cookie bypasses the strip)", 2)
	{
		sub := NewCtx("tmp", c.Progs)
		ruleInterimNoLatch(sub, p, "C10.X")
		for _, o := range sub.Obs {
			if len(o.Key) > 0 && containsStr(o.Key, "agent/sessions.") {
				c.Obs = append(c.Obs, o)
			}
		}
	}

	// ---- C10.A
	c.Rule("C10.A", "session cookie attributes", 6)
	if wh != nil {
		as := AllocsOf(wh, "net/http.Cookie")
		if len(as) != 1 {
			c.Unk("C10.A", "cookie-literal", p, wh.Pos(), fmt.Sprintf("expected one http.Cookie literal in WriteHeader, found %d", len(as)))
		} else {
			a := as[0]
			get := func(f string) ssa.Value { v, _ := LiteralField(a, f); return v }
			if v := get("HttpOnly"); v != nil {
				cv, ok := v.(*ssa.Const)
				c.Check("C10.A", "HttpOnly", p, a.Pos(), ok && cv.Value != nil && constant.BoolVal(cv.Value), "HttpOnly = true", "HttpOnly is not the constant true")
			} else {
				c.Bad("C10.A", "HttpOnly", p, a.Pos(), "HttpOnly is not set (defaults to false)")
			}
			if v := get("Path"); v != nil {
				s, ok := ConstString(v)
				c.Check("C10.A", "Path", p, a.Pos(), ok && s == "/", "Path = \"/\"", "Path is not the constant \"/\"")
			} else {
				c.Bad("C10.A", "Path", p, a.Pos(), "Path is not set")
			}
			if v := get("Secure"); v != nil {
				ok := false
				if u, isU := v.(*ssa.UnOp); isU && u.Op == token.NOT {
					ok = PathOf(u.X) == cacheField(wh, "disableSSLForTest")
				}
				c.Check("C10.A", "Secure", p, a.Pos(), ok, "Secure = !cache.disableSSLForTest", "Secure is "+PathOf(v)+", expected the negation of the cache's test-override flag")
			} else {
				c.Bad("C10.A", "Secure", p, a.Pos(), "Secure is not set (defaults to false)")
			}
			if v := get("Expires"); v != nil {
				ok := false
				if call := CallResult(v, 0, "(time.Time).Add"); call != nil {
					ok = CallResult(PArgs(&call.Call)[0], 0, "time.Now") != nil && PathOf(PArgs(&call.Call)[1]) == cacheField(wh, "sessionCookieTimeout")
				}
				c.Check("C10.A", "Expires", p, a.Pos(), ok, "Expires = time.Now().Add(cache.sessionCookieTimeout)", "Expires is "+PathOf(v)+", expected time.Now().Add(<configured lifetime>)")
			} else {
				c.Bad("C10.A", "Expires", p, a.Pos(), "Expires is not set")
			}
			if v := get("Name"); v != nil {
				c.PathIs("C10.A", "Name", p, a.Pos(), v, "cookie name", cacheField(wh, "sessionCookieName"))
			} else {
				c.Bad("C10.A", "Name", p, a.Pos(), "Name is not set")
			}
			if v := get("Value"); v != nil {
				ok := PathOf(v) == P(wh, 0)+".sessionID"
				// the field was just assigned a fresh UUID, dominating the literal
				fresh := false
				for _, st := range StoresToField([]*ssa.Function{wh}, T, "sessionID") {
					if call := CallResult(st.Val, 0, "(github.com/google/uuid.UUID).String"); call != nil && CallResult(PArgs(&call.Call)[0], 0, "github.com/google/uuid.New", "github.com/google/uuid.NewRandom") != nil {
						if Dominates(st, a) || st.Block() == a.Block() {
							fresh = true
						}
					}
					// uuid.NewString() is uuid.New().String()
					if CallResult(st.Val, 0, "github.com/google/uuid.NewString") != nil && (Dominates(st, a) || st.Block() == a.Block()) {
						fresh = true
					}
				}
				c.Check("C10.A", "Value", p, a.Pos(), ok && fresh, "Value = the freshly generated uuid.New().String() session ID", "the cookie value is not the freshly generated UUID session ID ("+PathOf(v)+")")
			} else {
				c.Bad("C10.A", "Value", p, a.Pos(), "Value is not set")
			}
			for _, f := range []string{"Domain", "MaxAge", "SameSite"} {
				_ = f
			}
		}
	}

	// ---- C10.N
	c.Rule("C10.N", "the session cache is built with the configured name, lifetime, size and test override", 5)
	if f := c.need(p, "C10.N", "agent/sessions.NewCache"); f != nil {
		if as := AllocsOf(f, "agent/sessions.Cache"); len(as) == 1 {
			for fld, idx := range map[string]int{"sessionCookieName": 0, "sessionCookieTimeout": 1, "disableSSLForTest": 3} {
				if v, ok := LiteralField(as[0], fld); ok {
					c.PathIs("C10.N", "NewCache:"+fld, p, as[0].Pos(), v, "Cache."+fld, P(f, idx))
				} else {
					c.Bad("C10.N", "NewCache:"+fld, p, as[0].Pos(), "field not set")
				}
			}
			if ln := c.UniqueCall("C10.N", p, f, false, "github.com/golang/groupcache/lru.New"); ln != nil {
				c.ArgIs("C10.N", "NewCache:lru-size", p, ln, 0, "the LRU holds the configured number of sessions", P(f, 2))
			}
		}
	}
	if m := p.Func("agent.main"); m != nil {
		if nc := c.UniqueCall("C10.N", p, m, false, ModPath+"/agent/sessions.NewCache"); nc != nil {
			a := PArgs(CallOf(nc))
			ok := PathOf(a[0]) == "**global:sessionCookieName" && PathOf(a[1]) == "**global:sessionCookieTimeout" && PathOf(a[2]) == "**global:sessionCookieCacheLimit" && PathOf(a[3]) == "**global:disableSSLForTest"
			c.Check("C10.N", "main:cache-from-flags", p, nc.Pos(), ok, "NewCache receives the four session flags in their roles", "NewCache is not called with (-session-cookie-name, -session-cookie-timeout, -session-cookie-cache-limit, -disable-ssl-for-test) in these roles")
		}
	}

	// ---- C10.R
	c.Rule("C10.R", "the session cookie never reaches the backend; jars and cookie URL are the caller's own", 21)
	if rs := c.need(p, "C10.R", "agent/sessions.(*sessionHandler).restoreSession"); rs != nil {
		del := []ssa.Instruction{}
		for _, call := range Calls(rs, "(net/http.Header).Del") {
			if k, ok := ConstString(PArgs(CallOf(call))[1]); ok && canonicalHeaderKey(k) == "Cookie" && PathOf(PArgs(CallOf(call))[0]) == P(rs, 1)+".Header" {
				del = append(del, call)
			}
		}
		adds := Calls(rs, "(*net/http.Request).AddCookie")
		okd := len(del) == 1
		for _, a := range adds {
			if okd && !Dominates(del[0], a) {
				okd = false
			}
		}
		c.Check("C10.R", "restore:delete-cookie-header-first", p, rs.Pos(), okd, "r.Header.Del(\"Cookie\") dominates every AddCookie", "the Cookie header is not deleted before cookies are re-added: the session cookie reaches the backend")
		// the re-add of client cookies under name equality / inequality
		var clientAdd ssa.Instruction
		for _, a := range adds {
			if PathOf(Args(CallOf(a))[1]) == "result:(*net/http.Request).Cookies[]" {
				clientAdd = a
			}
		}
		if clientAdd == nil {
			c.Bad("C10.R", "restore:client-cookies-kept", p, rs.Pos(), "the client's own other cookies are not re-added")
		} else {
			envFor := func(equal bool) Env {
				return func(x ssa.Value) (constant.Value, bool) {
					// the configured name handed in as a parameter at the function's only call site
					if prm, isP := x.(*ssa.Parameter); isP {
						if a := soleSiteArg(prm); a != nil {
							if _, f, ok := FieldLoad(a); ok && f == "sessionCookieName" {
								return constant.MakeString("S"), true
							}
						}
					}
					if _, f, ok := FieldLoad(x); ok {
						if f == "sessionCookieName" {
							return constant.MakeString("S"), true
						}
						if f == "Name" {
							if equal {
								return constant.MakeString("S"), true
							}
							return constant.MakeString("other"), true
						}
					}
					return nil, false
				}
			}
			isAdd := func(i ssa.Instruction) bool { return i == clientAdd }
			hitEq, _ := (&Walk{Target: isAdd, Edge: EdgeUnder(envFor(true))}).FromBlock(rs.Blocks[0])
			hitNe, _ := (&Walk{Target: isAdd, Edge: EdgeUnder(envFor(false))}).FromBlock(rs.Blocks[0])
			c.Check("C10.R", "restore:session-cookie-dropped", p, clientAdd.Pos(), hitEq == nil, "a client cookie named like the session cookie is never re-added", "a cookie whose name equals the session cookie name is re-added to the forwarded request: the session cookie reaches the backend")
			c.Check("C10.R", "restore:client-cookies-kept", p, clientAdd.Pos(), hitNe != nil, "client cookies with other names are re-added", "client cookies with other names are no longer forwarded")
		}
		// cached cookies come from the parameter
		okc := false
		for _, a := range adds {
			if PathOf(Args(CallOf(a))[1]) == P(rs, 2)+"[]" {
				okc = true
			}
		}
		c.Check("C10.R", "restore:jar-cookies-added", p, rs.Pos(), okc, "the session's cached cookies are added to the forwarded request", "the cookies restored from the jar are not added to the request")
	}
	if sh := c.need(p, "C10.R", "agent/sessions.(*sessionHandler).ServeHTTP"); sh != nil {
		ex := c.UniqueCall("C10.R", p, sh, false, mTH()+".extractSessionID")
		jar := c.UniqueCall("C10.R", p, sh, false, "(*"+ModPath+"/agent/sessions.Cache).cachedCookieJar")
		if ex != nil && jar != nil {
			c.ArgIs("C10.R", "serve:session-id-from-own-request", p, ex, 1, "session ID extracted from this request", P(sh, 2))
			c.Check("C10.R", "serve:jar-of-own-session", p, jar.Pos(), SameAsCallResult(Args(CallOf(jar))[1], ex.(ssa.Value)), "the jar consulted is keyed by the caller's own session cookie value", "the jar is looked up under "+PathOf(Args(CallOf(jar))[1])+", not under the caller's session ID")
			if ck := c.UniqueCall("C10.R", p, sh, false, "(net/http.CookieJar).Cookies"); ck != nil {
				c.PathIs("C10.R", "serve:cookies-from-that-jar", p, ck.Pos(), Args(CallOf(ck))[0], "cookies restored from the jar of this session", "result0:(*"+ModPath+"/agent/sessions.Cache).cachedCookieJar")
				if r := c.UniqueCall("C10.R", p, sh, false, mTH()+".restoreSession"); r != nil {
					c.Check("C10.R", "serve:restore-those-cookies", p, r.Pos(), SameValue(Args(CallOf(r))[2], ck.(ssa.Value)) && PathOf(Args(CallOf(r))[1]) == P(sh, 2), "restoreSession receives this request and the cookies of its own session's jar", "restoreSession is not called with this request and the cookies read from its session's jar")
				}
			}
			// writer literal
			as := AllocsOf(sh, T)
			if len(as) == 1 {
				if v, ok := LiteralField(as[0], "sessionID"); ok {
					c.Check("C10.R", "serve:writer-session", p, as[0].Pos(), SameAsCallResult(v, ex.(ssa.Value)), "the response writer stores cookies under the caller's own session ID", "the response writer is bound to session "+PathOf(v))
				} else {
					c.Bad("C10.R", "serve:writer-session", p, as[0].Pos(), "sessionID not set in the writer literal")
				}
				if v, ok := LiteralField(as[0], "wrapped"); ok {
					c.PathIs("C10.R", "serve:writer-wraps-own", p, as[0].Pos(), v, "the writer wraps this call's ResponseWriter", P(sh, 1))
				}
				if v, ok := LiteralField(as[0], "c"); ok {
					c.PathIs("C10.R", "serve:writer-cache", p, as[0].Pos(), v, "the writer uses the handler's cache", P(sh, 0)+".c")
				}
			} else {
				c.Unk("C10.R", "serve:writer-session", p, sh.Pos(), "expected one sessionResponseWriter literal")
			}
		}
		// once the wrapped handler has returned, Set-Cookie fields it left in the header map after
		// the header was written — trailers, declared or prefixed — are dropped (F15)
		ruleTrailerCookiesDropped(c, p, sh)
		// cookie URL: copy of *r.URL with Scheme const and Host = r.Host
		var urlAlloc *ssa.Alloc
		for _, a := range AllocsOf(sh, "net/url.URL") {
			urlAlloc = a
		}
		if urlAlloc == nil {
			c.Unk("C10.R", "serve:cookie-url", p, sh.Pos(), "no url.URL local found")
		} else {
			okInit, okHost, okScheme := false, false, false
			for _, r := range Refs(urlAlloc) {
				if st, ok := r.(*ssa.Store); ok && st.Addr == ssa.Value(urlAlloc) {
					okInit = PathOf(st.Val) == "*"+P(sh, 2)+".URL"
				}
			}
			if v, ok := LiteralField(urlAlloc, "Host"); ok {
				okHost = PathOf(v) == P(sh, 2)+".Host"
			}
			if v, ok := LiteralField(urlAlloc, "Scheme"); ok {
				s, isC := ConstString(v)
				okScheme = isC && (s == "https" || s == "http")
			}
			// … and nothing else of the copy is rewritten: the path decides which path-scoped cookies
			// match and what the default path of a new cookie is (path.Clean drops a trailing slash)
			other := ""
			for _, r := range Refs(urlAlloc) {
				if fa, isFA := r.(*ssa.FieldAddr); isFA {
					f := fieldName(fa.X.Type(), fa.Field)
					if f == "Scheme" || f == "Host" {
						continue
					}
					for _, u := range Refs(fa) {
						if st, isSt := u.(*ssa.Store); isSt && st.Addr == ssa.Value(fa) {
							other = f + " at " + p.Pos(st.Pos())
						}
					}
				}
			}
			c.Check("C10.R", "serve:cookie-url-keeps-the-request-path", p, urlAlloc.Pos(), other == "", "only Scheme and Host of the copied request URL are set", "the cookie URL's "+other+" is rewritten: the jar is asked and filled under a path other than the requested one — a normalisation such as path.Clean turns /app/ into /app, so cookies scoped to /app/ are not restored for it and a Path-less cookie set there gets the wrong default path")
			c.Check("C10.R", "serve:cookie-url", p, urlAlloc.Pos(), okInit && okHost && okScheme, "cookie URL = copy of the request's own URL with its own Host and a constant scheme", fmt.Sprintf("cookie URL is not built from the request's own URL/Host (copy of r.URL: %v, Host=r.Host: %v, constant scheme: %v)", okInit, okHost, okScheme))
		}
	}
	if wh != nil {
		if jar := c.UniqueCall("C10.R", p, wh, false, "(*"+ModPath+"/agent/sessions.Cache).cachedCookieJar"); jar != nil {
			c.ArgIs("C10.R", "writer:jar-of-own-session", p, jar, 1, "cookies are stored into the jar of the writer's own session", P(wh, 0)+".sessionID")
			if sc := c.UniqueCall("C10.R", p, wh, false, "(net/http.CookieJar).SetCookies"); sc != nil {
				a := Args(CallOf(sc))
				c.PathIs("C10.R", "writer:store-into-that-jar", p, sc.Pos(), a[0], "SetCookies on the jar of this session", "result0:(*"+ModPath+"/agent/sessions.Cache).cachedCookieJar")
				c.PathIs("C10.R", "writer:store-under-own-url", p, sc.Pos(), a[1], "cookies stored under the request's own URL", P(wh, 0)+".urlForCookies")
				if rd := setCookieReads(wh); len(rd) == 1 && rd[0].Parsed {
					c.Check("C10.R", "writer:store-intercepted-cookies", p, sc.Pos(), cookiesFromRead(a[2], rd[0].At), "the cookies stored are http.ParseSetCookie of every Set-Cookie value read from the header", "the cookies handed to SetCookies ("+PathOf(a[2])+") are not (only) the parsed Set-Cookie values read from the backend's header")
				} else {
					c.PathIs("C10.R", "writer:store-intercepted-cookies", p, sc.Pos(), a[2], "the cookies stored are the backend's intercepted ones", "result:(*net/http.Response).Cookies")
				}
			}
		}
	}
	// the session handler that wraps the shim's open handler must see the restored target URL
	if se := resolveShimEndpoints(c, p, "C10.R"); se != nil && se.ByName["open"] != nil {
		op := se.ByName["open"]
		var urlStore, deleg ssa.Instruction
		for _, m := range requestMutations(op) {
			if m.Kind == "field:URL" {
				urlStore = m.Instr
			}
		}
		for _, call := range Calls(op, "(net/http.Handler).ServeHTTP") {
			rs := Roots(Args(CallOf(call))[0])
			if len(rs) == 1 {
				if wc, ok := rs[0].(*ssa.Call); ok && PathOf(wc.Call.Value) == P(se.Create, 4) {
					deleg = call
				}
			}
		}
		c.Check("C10.R", "shim-open:session-handler-sees-restored-url", p, op.Pos(), urlStore != nil && deleg != nil && Dominates(urlStore, deleg), "the open endpoint restores r.URL from the body before it delegates to the handler wrapped by openWebsocketWrapper (the session handler), so the jar is consulted for the websocket's real URL", "the session wrapper of the shim open handler does not run after r.URL was restored from the request body: cookies are looked up for <shimPath>/open instead of the websocket's URL, so path-scoped cookies of the session are missing from the backend handshake")
	}
	if ex := c.need(p, "C10.R", "agent/sessions.(*sessionHandler).extractSessionID"); ex != nil {
		if ck := c.UniqueCall("C10.R", p, ex, false, "(*net/http.Request).Cookie"); ck != nil {
			c.ArgIs("C10.R", "extract:by-configured-name", p, ck, 1, "session cookie looked up by the configured name", cacheField(ex, "sessionCookieName"))
			c.ArgIs("C10.R", "extract:from-own-request", p, ck, 0, "looked up on this request", P(ex, 1))
			okr := true
			n := 0
			EachInstr(ex, func(i ssa.Instruction) {
				if r, ok := i.(*ssa.Return); ok {
					n++
					v := r.Results[0]
					if s, isC := ConstString(v); isC && s == "" {
						return
					}
					if PathOf(v) != "result0:(*net/http.Request).Cookie.Value" {
						okr = false
					}
				}
			})
			c.Check("C10.R", "extract:returns-cookie-value", p, ex.Pos(), okr && n >= 2, "returns the session cookie's value, or \"\"", "extractSessionID returns something other than the session cookie's value")
		}
	}
}

func mTH() string { return "(*" + ModPath + "/agent/sessions.sessionHandler)" }

func containsStr(s, sub string) bool {
	for i := 0; i+len(sub) <= len(s); i++ {
		if s[i:i+len(sub)] == sub {
			return true
		}
	}
	return false
}

// isWrappedHeader: v is the header map of the wrapped writer: result of the
// writer's own Header() method or of wrapped.Header().
func isWrappedHeader(v ssa.Value) bool {
	for _, r := range Roots(v) {
		call, ok := r.(*ssa.Call)
		if !ok {
			return false
		}
		n := CalleeName(call.Common())
		if n == "(net/http.ResponseWriter).Header" {
			continue
		}
		if f := StaticFunc(call.Common()); f != nil && f.Name() == "Header" && len(f.Params) == 1 {
			continue
		}
		return false
	}
	return true
}

// setCookieRead: one place where the Set-Cookie values of a header are read in order to be
// parsed: (&http.Response{Header: h}).Cookies(), or h.Values("Set-Cookie") / h["Set-Cookie"]
// whose elements go to http.ParseSetCookie.
type setCookieRead struct {
	At     ssa.Instruction
	Header ssa.Value
	Parsed bool // the ParseSetCookie form
}

func setCookieReads(fn *ssa.Function) []setCookieRead {
	var out []setCookieRead
	var parses []*ssa.Call
	for _, f := range WithClosures(fn) {
		EachInstr(f, func(i ssa.Instruction) {
			if IsCall(i, "net/http.ParseSetCookie") {
				parses = append(parses, i.(*ssa.Call))
			}
		})
	}
	feedsParse := func(read ssa.Value) bool {
		for _, pc := range parses {
			hit := false
			SliceBack(PArgs(&pc.Call)[0], func(v ssa.Value) bool {
				if v == read {
					hit = true
					return false
				}
				return true
			})
			if hit {
				return true
			}
		}
		return false
	}
	seen := map[ssa.Instruction]bool{}
	for _, f := range WithClosures(fn) {
		EachInstr(f, func(i ssa.Instruction) {
			if seen[i] {
				return
			}
			switch x := i.(type) {
			case *ssa.Call:
				switch CalleeName(x.Common()) {
				case "(*net/http.Response).Cookies":
					seen[i] = true
					var h ssa.Value
					for _, r := range Roots(Args(x.Common())[0]) {
						if a, isA := r.(*ssa.Alloc); isA {
							if hv, ok := LiteralField(a, "Header"); ok {
								h = hv
							}
						}
					}
					out = append(out, setCookieRead{At: i, Header: h})
				case "(net/http.Header).Values":
					if k, ok := ConstString(PArgs(&x.Call)[1]); ok && canonicalHeaderKey(k) == "Set-Cookie" && feedsParse(x) {
						seen[i] = true
						out = append(out, setCookieRead{At: i, Header: PArgs(&x.Call)[0], Parsed: true})
					}
				}
			case *ssa.Lookup:
				if NamedType(x.X.Type()) == "net/http.Header" {
					if k, ok := ConstString(x.Index); ok && k == "Set-Cookie" && feedsParse(x) {
						seen[i] = true
						out = append(out, setCookieRead{At: i, Header: x.X, Parsed: true})
					}
				}
			}
		})
	}
	return out
}

// cookiesFromRead: every *http.Cookie that can reach v is a result of http.ParseSetCookie
// on an element of the values read at `read` (no cookie is made up, none comes from elsewhere).
func cookiesFromRead(v ssa.Value, read ssa.Instruction) bool {
	rv, _ := read.(ssa.Value)
	n, ok := 0, true
	SliceBack(v, func(x ssa.Value) bool {
		switch y := x.(type) {
		case *ssa.Alloc:
			if NamedType(y.Type()) == "net/http.Cookie" {
				ok = false
			}
		case *ssa.Call:
			switch CalleeName(y.Common()) {
			case "net/http.ParseSetCookie":
				n++
				hit := false
				SliceBack(PArgs(&y.Call)[0], func(z ssa.Value) bool {
					if z == rv {
						hit = true
						return false
					}
					return true
				})
				if !hit {
					ok = false
				}
				return false
			case "(*net/http.Response).Cookies", "(*net/http.Request).Cookies", "(*net/http.Request).Cookie", "(net/http.CookieJar).Cookies", "net/http.ParseCookie":
				ok = false
			}
		}
		return true
	})
	return ok && n > 0
}

// cacheField: how a configuration field of the session cache reads inside fn — through the
// receiver's field c, or directly where a refactoring made the cache itself the receiver.
func cacheField(fn *ssa.Function, field string) string {
	if prm := ParamAt(fn, 0); prm != nil && NamedTypeRel(prm.Type()) == "agent/sessions.Cache" {
		return P(fn, 0) + "." + field
	}
	return P(fn, 0) + ".c." + field
}

// ruleTrailerCookiesDropped (C10.S, F15): a backend cookie set after the response header was
// written would travel as a trailer (`Trailer: Set-Cookie` declared, or under
// http.TrailerPrefix) past the interception in WriteHeader. Every path from the call of the
// wrapped handler to a return of the session handler deletes both spellings from the writer's
// header map (the plain one at least when the header was written) — directly or in a module
// function called there.
func ruleTrailerCookiesDropped(c *Ctx, p *Prog, sh *ssa.Function) {
	serve := c.UniqueCall("C10.S", p, sh, false, "(net/http.Handler).ServeHTTP")
	if serve == nil {
		return
	}
	delOf := func(i ssa.Instruction, key string) bool {
		cc := CallOf(i)
		if cc == nil || CalleeName(cc) != "(net/http.Header).Del" {
			return false
		}
		k, isC := ConstString(PArgs(cc)[1])
		return isC && strings.EqualFold(k, key)
	}
	latch := func(v ssa.Value) (constant.Value, bool) {
		if _, f, ok := FieldLoad(v); ok && f == "wroteHeader" {
			return constant.MakeBool(true), true
		}
		return nil, false
	}
	var drops func(i ssa.Instruction, key string, depth int) bool
	drops = func(i ssa.Instruction, key string, depth int) bool {
		if delOf(i, key) {
			return true
		}
		cc := CallOf(i)
		if cc == nil || depth > 2 {
			return false
		}
		g := StaticFunc(cc)
		if g == nil || !p.IsModFunc(g) || len(g.Blocks) == 0 {
			return false
		}
		hit, _ := (&Walk{Target: IsReturn, Avoid: func(j ssa.Instruction) bool { return drops(j, key, depth+1) }, Edge: EdgeUnder(latch), Local: true}).FromBlock(g.Blocks[0])
		return hit == nil
	}
	for _, key := range []string{http.TrailerPrefix + "Set-Cookie", "Set-Cookie"} {
		k := key
		hit, _ := (&Walk{Target: func(i ssa.Instruction) bool { return IsReturn(i) && i.Parent() == sh }, Avoid: func(j ssa.Instruction) bool { return drops(j, k, 0) }, Edge: EdgeUnder(latch)}).FromInstr(serve)
		where := ""
		if hit != nil {
			where = " (return at " + p.Pos(hit.Pos()) + ")"
		}
		c.Check("C10.S", "serve:trailer-cookie-dropped:"+k, p, serve.Pos(), hit == nil, "after the wrapped handler returned, "+k+" is deleted from the writer's header map on every path (with the header written)", "the session handler can return without deleting "+k+" from the header map"+where+": a cookie the backend sets after its header was written is relayed to the client as a trailer, past the session")
	}
}

package ipc

import (
	"fmt"
	"go/constant"
	"go/token"
	"go/types"
	"math/big"
	"reflect"
	"sort"
	"strings"
	"time"

	"golang.org/x/tools/go/ssa"
)

// ResponseWriterImpls returns the named struct types of module packages
// (outside testing/) whose pointer method set has Header, Write and
// WriteHeader with the http.ResponseWriter signatures, declared in source.
func ResponseWriterImpls(p *Prog) []*types.Named {
	var out []*types.Named
	var paths []string
	for ip := range p.ModPkgs {
		paths = append(paths, ip)
	}
	sort.Strings(paths)
	for _, ip := range paths {
		if strings.HasPrefix(Rel(ip), "testing") {
			continue
		}
		scope := p.ModPkgs[ip].Types.Scope()
		for _, name := range scope.Names() {
			tn, ok := scope.Lookup(name).(*types.TypeName)
			if !ok {
				continue
			}
			named, ok := tn.Type().(*types.Named)
			if !ok {
				continue
			}
			if _, isStruct := named.Underlying().(*types.Struct); !isStruct {
				continue
			}
			// full method set (declared and promoted through embedding): the type can stand in for an http.ResponseWriter
			have := map[string]bool{}
			ms := types.NewMethodSet(types.NewPointer(named))
			for i := 0; i < ms.Len(); i++ {
				have[objName(ms.At(i).Obj())] = true
			}
			declared := 0
			for i := 0; i < named.NumMethods(); i++ {
				switch objName(named.Method(i)) {
				case "Write", "WriteHeader", "Header":
					declared++
				}
			}
			if have["WriteHeader"] && have["Write"] && have["Header"] && declared > 0 {
				out = append(out, named)
			}
		}
	}
	return out
}

// MethodOf returns the SSA function of the declared method T.name / (*T).name.
func (p *Prog) MethodOf(named *types.Named, name string) *ssa.Function {
	for i := 0; i < named.NumMethods(); i++ {
		m := named.Method(i)
		if objName(m) == name {
			return p.SSA.FuncValue(m)
		}
	}
	return nil
}

// rulePublishedMaps — C03.P / C07.P.
// For every *http.Response that a module function hands to another goroutine
// (channel send), the map-typed fields Header and Trailer must not alias
// state of the sender that stays reachable from the sender's other methods:
// the value must not originate from a field of the receiver and must not be
// stored into one.
func rulePublishedMaps(c *Ctx, p *Prog, rule string) {
	n := 0
	for _, fn := range p.Funcs {
		if strings.HasPrefix(FuncName(fn), "testing") {
			continue
		}
		for _, op := range ChanOpsOf(fn) {
			if op.Kind != "send" || op.Val == nil {
				continue
			}
			if NamedType(op.Val.Type()) != "net/http.Response" {
				continue
			}
			rs := Roots(op.Val)
			alloc, ok := rs[0].(*ssa.Alloc)
			if len(rs) != 1 || !ok || !(alloc.Parent() == fn || inSplicedBody(fn, alloc)) {
				// forwarding a response received elsewhere (server side relays what it parsed): not a fresh publication
				continue
			}
			var recv ssa.Value
			if fn.Signature.Recv() != nil && len(fn.Params) > 0 {
				recv = ParamAt(fn, 0)
			}
			for _, field := range []string{"Header", "Trailer"} {
				n++
				key := fmt.Sprintf("%s publishes Response.%s", FuncName(fn), field)
				v, ok := LiteralField(alloc, field)
				if !ok {
					c.OK(rule, key, p, alloc.Pos(), "field not set in the published response")
					continue
				}
				bad := ""
				for _, r := range Roots(v) {
					if base, f, ok := FieldLoad(r); ok && recv != nil && rootIs(base, recv) {
						bad = "it is loaded from the sender's field " + f
					}
					// one interprocedural step: an accessor of the sender (w.Header()) that returns one of its fields
					if call, ok := r.(*ssa.Call); ok && recv != nil {
						if g := StaticFunc(call.Common()); g != nil && len(g.Blocks) > 0 && len(PArgs(&call.Call)) > 0 && rootIs(PArgs(&call.Call)[0], recv) {
							for _, ret := range Returns(g) {
								if len(ret.Results) == 0 {
									continue
								}
								for _, rr := range Roots(ReturnValue(ret, 0)) {
									if b2, f2, ok := FieldLoad(rr); ok && len(g.Params) > 0 && rootIs(b2, ParamAt(g, 0)) {
										bad = "it is the sender's field " + f2 + " returned by its accessor " + g.Name() + "()"
									}
								}
							}
						}
					}
				}
				if bad == "" && recv != nil {
					EachInstr(fn, func(i ssa.Instruction) {
						if st, ok := i.(*ssa.Store); ok {
							if base, f, ok := FieldAddrOf(st.Addr); ok && rootIs(base, recv) && SameValue(st.Val, v) {
								bad = "the same map is stored into the sender's field " + f
							}
						}
					})
				}
				if bad != "" {
					c.Bad(rule, key, p, op.Instr.Pos(), "the "+field+" map of the response sent to another goroutine is shared with the sender: "+bad+"; the receiving goroutine iterates it inside Response.Write while the handler goroutine keeps mutating it via Header()/Close() (data race; fatal 'concurrent map iteration and map write' for 1-byte first writes)")
				} else {
					c.OK(rule, key, p, op.Instr.Pos(), "the published "+field+" map ("+PathOf(v)+") is private to the response")
				}
			}
		}
	}
	if n == 0 {
		c.Unk(rule, "publication-sites", p, 0, "no function publishes a freshly built *http.Response on a channel: the streaming writer was rewritten into a shape this rule cannot read")
	}
}

func rootIs(v, want ssa.Value) bool {
	rs := Roots(v)
	return len(rs) == 1 && rs[0] == want
}

// shimChan describes one channel of the websocket shim connection.
type shimChan struct {
	Field string
	Mk    *ssa.MakeChan
	Ops   []ChanOp
}

// shimChannels gathers the operations on the channel-typed fields of
// agent/websockets.Connection, unifying the locals of NewConnection with the
// fields they are stored into.
func shimChannels(c *Ctx, p *Prog, rule string) []*shimChan {
	nc := c.need(p, rule, "agent/websockets.NewConnection")
	if nc == nil {
		return nil
	}
	as := AllocsOf(nc, "agent/websockets.Connection")
	if len(as) != 1 {
		c.Unk(rule, "NewConnection:literal", p, nc.Pos(), fmt.Sprintf("expected one Connection literal in NewConnection, found %d", len(as)))
		return nil
	}
	st := as[0].Type().Underlying().(*types.Pointer).Elem().Underlying().(*types.Struct)
	var out []*shimChan
	fns := p.FuncsIn("agent/websockets")
	for i := 0; i < st.NumFields(); i++ {
		f := st.Field(i)
		if _, ok := f.Type().Underlying().(*types.Chan); !ok {
			continue
		}
		sc := &shimChan{Field: objName(f)}
		if v, ok := LiteralField(as[0], objName(f)); ok {
			if rs := Roots(v); len(rs) == 1 {
				sc.Mk, _ = rs[0].(*ssa.MakeChan)
			}
		}
		if sc.Mk == nil {
			c.Unk(rule, "Connection."+objName(f)+":creation", p, as[0].Pos(), "channel field is not initialised from a make(chan) in NewConnection")
		}
		for _, fn := range fns {
			for _, op := range ChanOpsOf(fn) {
				for _, r := range Roots(op.Chan) {
					if r == ssa.Value(sc.Mk) && sc.Mk != nil {
						sc.Ops = append(sc.Ops, op)
						break
					}
					if base, fld, ok := FieldLoad(r); ok && fld == objName(f) && NamedTypeRel(base.Type()) == "agent/websockets.Connection" {
						sc.Ops = append(sc.Ops, op)
						break
					}
				}
			}
		}
		out = append(out, sc)
	}
	return out
}

// goBodyOnce: fn is the body of a go statement that occurs exactly once, outside any loop.
func goBodyOnce(fn *ssa.Function) bool {
	if info := helperOf(fn); info != nil {
		// a new helper started as `go helper(args)`: the named form of a goroutine closure
		if len(info.sites) != 1 {
			return false
		}
		g, isGo := info.sites[0].(*ssa.Go)
		return isGo && !InLoop(g.Block())
	}
	par := fn.Parent()
	if par == nil {
		return false
	}
	n := 0
	ok := true
	for _, f := range WithClosures(par) {
		EachInstr(f, func(i ssa.Instruction) {
			if g, isGo := i.(*ssa.Go); isGo && StaticFunc(&g.Call) == fn {
				n++
				if InLoop(i.Block()) {
					ok = false
				}
			}
		})
	}
	if n == 0 && ok {
		return goRunByHelper(fn)
	}
	return n == 1 && ok
}

// goRunByHelper: the closure is handed (once, outside loops) to a new helper whose parameter is
// run exactly once on a goroutine the helper starts once — `goWait(&wg, func() {…})` with
// `func goWait(wg, f) { wg.Add(1); go func() { defer wg.Done(); f() }() }`, the hand-written
// form of WaitGroup.Go.
func goRunByHelper(fn *ssa.Function) bool {
	par := fn.Parent()
	if par == nil {
		return false
	}
	sites := 0
	good := true
	EachInstrRaw(par, func(i ssa.Instruction) {
		call, isCall := i.(*ssa.Call)
		if !isCall {
			return
		}
		for k, a := range call.Call.Args {
			mc, isMC := a.(*ssa.MakeClosure)
			if !isMC || mc.Fn != ssa.Value(fn) {
				continue
			}
			sites++
			h := call.Call.StaticCallee()
			if h == nil || !IsNewHelper(h) || InLoop(call.Block()) || k >= len(h.Params) {
				good = false
				continue
			}
			if !paramRunOnceOnGoroutine(h.Params[k]) {
				good = false
			}
		}
	})
	return sites == 1 && good
}

func paramRunOnceOnGoroutine(prm *ssa.Parameter) bool {
	return valueRunOnceOnGoroutine(prm, 0)
}

func valueRunOnceOnGoroutine(prm ssa.Value, depth int) bool {
	runs := 0
	for _, r := range Refs(prm) {
		switch x := r.(type) {
		case *ssa.DebugRef:
		case *ssa.Store:
			// a parameter that a closure captures lives in a cell: follow the cell
			if x.Addr == prm {
				continue // the store that fills the cell being followed
			}
			cell, isCell := x.Addr.(*ssa.Alloc)
			if !isCell || x.Val != prm || depth > 0 {
				return false
			}
			for _, cr := range Refs(cell) {
				if st, isSt := cr.(*ssa.Store); isSt && st != x {
					return false
				}
			}
			if !valueRunOnceOnGoroutine(cell, depth+1) {
				return false
			}
			runs++
		case *ssa.Go:
			if x.Call.Value != prm || InLoop(x.Block()) {
				return false
			}
			runs++
		case *ssa.MakeClosure:
			g, _ := x.Fn.(*ssa.Function)
			if g == nil {
				return false
			}
			// the closure must be go'd once, outside loops, right here
			started := 0
			for _, rr := range Refs(x) {
				switch y := rr.(type) {
				case *ssa.Go:
					if y.Call.Value != ssa.Value(x) || InLoop(y.Block()) {
						return false
					}
					started++
				case *ssa.DebugRef:
				default:
					return false
				}
			}
			if started != 1 {
				return false
			}
			for bi, b := range x.Bindings {
				if b != prm {
					continue
				}
				fv := g.FreeVars[bi]
				for _, u := range Refs(fv) {
					switch z := u.(type) {
					case *ssa.DebugRef:
					case *ssa.Call:
						if z.Call.Value != ssa.Value(fv) || InLoop(z.Block()) {
							return false
						}
						runs++
					case *ssa.UnOp:
						// the captured variable is a cell: its loads must all be plain calls
						for _, w := range Refs(z) {
							cl, isCl := w.(*ssa.Call)
							if !isCl || cl.Call.Value != ssa.Value(z) || InLoop(cl.Block()) {
								if _, isDbg := w.(*ssa.DebugRef); !isDbg {
									return false
								}
								continue
							}
							runs++
						}
					default:
						return false
					}
				}
			}
		default:
			return false
		}
	}
	return runs == 1
}

// onceBody: fn is passed to (*sync.Once).Do.
func onceBody(fn *ssa.Function) bool {
	par := fn.Parent()
	if par == nil {
		return false
	}
	found := false
	EachInstr(par, func(i ssa.Instruction) {
		if IsCall(i, "(*sync.Once).Do") {
			if mc, ok := PArgs(CallOf(i))[1].(*ssa.MakeClosure); ok && mc.Fn == fn {
				found = true
			}
		}
	})
	return found
}

// isDoneChan: v is the result of conn.done() / ctx.Done().
func isDoneChan(v ssa.Value) bool {
	for _, r := range Roots(v) {
		call, ok := r.(*ssa.Call)
		if !ok {
			return false
		}
		if call.Call.IsInvoke() {
			if call.Call.Method.FullName() != "(context.Context).Done" {
				return false
			}
			continue
		}
		if _, f, ok := FieldLoad(call.Call.Value); ok && f == "done" {
			continue
		}
		return false
	}
	return true
}

// isTimerChan: a channel that delivers after a bounded time — time.After(d), or the C of a
// time.NewTimer(d) / time.NewTicker(d) that is not re-armed with Reset.
func isTimerChan(v ssa.Value) bool {
	if CallResult(v, 0, "time.After") != nil {
		return true
	}
	base, fld, ok := FieldLoad(v)
	if !ok || fld != "C" {
		return false
	}
	rs := Roots(base)
	if len(rs) == 0 {
		return false
	}
	for _, r := range rs {
		call := CallResult(r, 0, "time.NewTimer", "time.NewTicker")
		if call == nil {
			return false
		}
		for _, u := range Refs(call) {
			if cc := CallOf(u); cc != nil {
				switch CalleeName(cc) {
				case "(*time.Timer).Reset", "(*time.Ticker).Reset":
					return false
				}
			}
		}
	}
	return true
}

// ruleShimChannels — C12.C (typestate) and C12.B (no unguarded blocking send
// in code that endpoint handlers call).
func ruleShimChannels(c *Ctx, p *Prog, ruleC, ruleB string) {
	chans := shimChannels(c, p, ruleC)
	for _, sc := range chans {
		var sends, closes []ChanOp
		for _, op := range sc.Ops {
			switch op.Kind {
			case "send":
				sends = append(sends, op)
			case "close":
				closes = append(closes, op)
			}
		}
		key := "Connection." + sc.Field + ":close-discipline"
		switch {
		case len(closes) == 0:
			c.OK(ruleC, key, p, posOfOps(sc.Ops), fmt.Sprintf("never closed (%d send site(s)): no send-on-closed / double-close possible", len(sends)))
		default:
			reason := ""
			fn0 := closes[0].Fn
			for _, cl := range closes {
				if cl.Fn != fn0 {
					reason = "closed from more than one function"
				}
				if InLoop(cl.Instr.Block()) {
					reason = "closed inside a loop"
				}
			}
			if len(closes) > 1 {
				reason = fmt.Sprintf("%d close sites", len(closes))
			}
			if reason == "" {
				if len(sends) == 0 {
					if !(onceBody(fn0) || onceBody(closes[0].Instr.Parent()) || goBodyOnce(fn0)) {
						reason = "the close site in " + FuncName(fn0) + " is neither the body of a sync.Once nor of a goroutine started once per connection: two callers can close twice (panic: close of closed channel)"
					}
				} else {
					for _, s := range sends {
						if s.Fn != fn0 {
							reason = "sent on in " + FuncName(s.Fn) + " but closed in " + FuncName(fn0) + ": a concurrent sender panics with 'send on closed channel'"
						}
					}
					if reason == "" && !goBodyOnce(fn0) {
						reason = "sender/closer " + FuncName(fn0) + " is not a goroutine started exactly once per connection"
					}
				}
			}
			c.Check(ruleC, key, p, closes[0].Instr.Pos(), reason == "", "sole-sender-closes / once-closed discipline holds", "channel "+sc.Field+": "+reason+" — the shim handlers run in the agent's own worker goroutines (no recover), so the panic kills the agent")
		}
		// who may receive: the server-to-client queue is read by polls only, the client-to-server
		// queue by the writer goroutine only. Any other receiver (a drain "to free a blocked
		// reader", a peek) takes messages away from the side they were sent to.
		if sc.Field == "serverMessages" || sc.Field == "clientMessages" {
			stray := ""
			nrecv := 0
			for _, op := range sc.Ops {
				if op.Kind != "recv" {
					continue
				}
				nrecv++
				own := Owner(op.Instr)
				switch sc.Field {
				case "serverMessages":
					if FuncName(own) != "agent/websockets.(*Connection).ReadServerMessages" {
						stray = "received from in " + FuncName(own) + " at " + p.Pos(op.Instr.Pos())
					}
				case "clientMessages":
					if !goBodyOnce(own) || len(Calls(own, "(*github.com/gorilla/websocket.Conn).WriteMessage")) == 0 {
						stray = "received from in " + FuncName(own) + " at " + p.Pos(op.Instr.Pos())
					}
				}
			}
			// who may send: SendClientMessage and Close (client side), the reader goroutine (server
			// side). A second sending goroutine (a backlog flusher, a prefetcher) can be overtaken by
			// or overtake the direct path: messages arrive out of order.
			strayS := ""
			for _, op := range sc.Ops {
				if op.Kind != "send" {
					continue
				}
				own := Owner(op.Instr)
				top := FuncName(TopFunc(own))
				switch sc.Field {
				case "clientMessages":
					if top != "agent/websockets.(*Connection).SendClientMessage" && top != "agent/websockets.(*Connection).Close" {
						strayS = "sent on in " + FuncName(own) + " at " + p.Pos(op.Instr.Pos())
					}
				case "serverMessages":
					if !goBodyOnce(own) || len(Calls(own, "(*github.com/gorilla/websocket.Conn).ReadMessage", "(*github.com/gorilla/websocket.Conn).NextReader")) == 0 {
						strayS = "sent on in " + FuncName(own) + " at " + p.Pos(op.Instr.Pos())
					}
				}
			}
			c.Check(ruleC, "Connection."+sc.Field+":sole-sending-side", p, posOfOps(sc.Ops), strayS == "", "the queue is fed from one place (SendClientMessage/Close, resp. the reader goroutine)", "channel "+sc.Field+" is also "+strayS+": two feeding paths (a direct one and a goroutine draining a backlog, say) are not ordered with respect to each other — messages can overtake each other")
			c.Check(ruleC, "Connection."+sc.Field+":sole-receiver", p, posOfOps(sc.Ops), stray == "" && nrecv > 0, "the queue has one receiving side (polls / the writer goroutine)", "channel "+sc.Field+" is "+stray+": messages taken there never reach the side they were sent to (e.g. a drain after the backend closed discards what the client has not polled yet)")
		}
		// blocking sends in non-goroutine code
		for k, s := range sends {
			fn := s.Fn
			if goBodyOnce(fn) {
				continue // the connection's own reader goroutine; it does not answer HTTP calls
			}
			bkey := fmt.Sprintf("Connection.%s:send#%d in %s", sc.Field, k+1, FuncName(fn))
			ok := false
			why := "plain blocking send"
			if s.InSelect {
				why = "select without an arm on the connection's done channel"
				if s.HasDefault {
					ok = true
					why = "non-blocking select"
				}
				for st := range s.Select.States {
					if st != s.State && s.Select.States[st].Dir == types.RecvOnly && isDoneChan(s.Select.States[st].Chan) {
						ok = true
					}
				}
			}
			c.Check(ruleB, bkey, p, s.Instr.Pos(), ok, "the send is a select arm next to the connection's done channel", "send on "+sc.Field+" in "+FuncName(fn)+" is a "+why+": once the writer goroutine has exited and the queue is full the calling shim endpoint never answers")
		}
	}
	if len(chans) < 2 {
		c.Unk(ruleC, "Connection:channels", p, 0, fmt.Sprintf("found %d channel fields in websockets.Connection (expected ≥2)", len(chans)))
	}
}

func posOfOps(ops []ChanOp) token.Pos {
	if len(ops) > 0 {
		return ops[0].Instr.Pos()
	}
	return 0
}

// ruleShimNilMessages: for each channel of the shim connection on which a
// nil pointer may be sent (some send value has a nil root), every
// dereference of a received value in the receiving code must be guarded by a
// nil test of that value. The goroutines of a connection run outside any
// recover, so a nil dereference there kills the agent.
func ruleShimNilMessages(c *Ctx, p *Prog, rule string) {
	for _, sc := range shimChannels(c, p, rule) {
		mayNil := ""
		for _, op := range sc.Ops {
			if op.Kind != "send" || op.Val == nil {
				continue
			}
			if _, isPtr := op.Val.Type().Underlying().(*types.Pointer); !isPtr {
				continue
			}
			for _, r := range Roots(op.Val) {
				if IsNilConst(r) {
					mayNil = FuncName(op.Fn) + " at " + p.Pos(op.Instr.Pos())
				}
			}
		}
		// a closed channel yields the zero value — a nil pointer — to a receive that does not
		// look at its second result
		closedAt := ""
		for _, op := range sc.Ops {
			if op.Kind == "close" {
				closedAt = FuncName(op.Fn) + " at " + p.Pos(op.Instr.Pos())
			}
		}
		if closedAt != "" {
			badc := ""
			nr := 0
			for _, op := range sc.Ops {
				if op.Kind != "recv" || op.Val == nil {
					continue
				}
				if _, isPtr := op.Val.Type().Underlying().(*types.Pointer); !isPtr {
					continue
				}
				nr++
				// the ok of this receive
				var okVal ssa.Value
				if op.Select != nil {
					for _, r := range Refs(op.Select) {
						if e, isE := r.(*ssa.Extract); isE && e.Index == 1 {
							okVal = e
						}
					}
				} else if u, isU := op.Instr.(*ssa.UnOp); isU && u.CommaOk {
					for _, r := range Refs(u) {
						if e, isE := r.(*ssa.Extract); isE && e.Index == 1 {
							okVal = e
						}
					}
				}
				for _, u := range Refs(op.Val) {
					deref := false
					switch x := u.(type) {
					case *ssa.FieldAddr:
						deref = x.X == op.Val
					case *ssa.UnOp:
						deref = x.Op == token.MUL && x.X == op.Val
					case *ssa.Call:
						if len(PArgs(&x.Call)) > 0 && PArgs(&x.Call)[0] == op.Val && x.Call.Signature().Recv() != nil {
							deref = true
						}
					}
					if !deref {
						continue
					}
					guarded := false
					for _, g := range GuardConds(u) {
						if okVal != nil && g.Cond == okVal && g.Truth {
							guarded = true
						}
						if bo, isB := g.Cond.(*ssa.BinOp); isB && (bo.X == op.Val && IsNilConst(bo.Y) || bo.Y == op.Val && IsNilConst(bo.X)) {
							if bo.Op == token.NEQ && g.Truth || bo.Op == token.EQL && !g.Truth {
								guarded = true
							}
						}
					}
					if !guarded {
						badc = fmt.Sprintf("%s dereferences the value received at %s without having tested the receive's ok (or the value for nil)", FuncName(op.Fn), p.Pos(u.Pos()))
					}
				}
			}
			c.Check(rule, "Connection."+sc.Field+":receivers-see-the-close", p, posOfOps(sc.Ops), badc == "", fmt.Sprintf("the channel is closed (%s); all %d receive site(s) of pointer values test ok (or nil) before dereferencing", closedAt, nr), "the channel "+sc.Field+" is closed ("+closedAt+") and "+badc+": once the backend has hung up the receive yields nil and the handler panics in a goroutine nothing recovers — the agent dies with all its requests")
		}
		key := "Connection." + sc.Field + ":nil-safe-receivers"
		if mayNil == "" {
			c.OK(rule, key, p, posOfOps(sc.Ops), "no send site can send a nil pointer")
			continue
		}
		bad := ""
		nrecv := 0
		for _, op := range sc.Ops {
			if op.Kind != "recv" || op.Val == nil {
				continue
			}
			nrecv++
			for _, u := range Refs(op.Val) {
				deref := false
				switch x := u.(type) {
				case *ssa.FieldAddr:
					deref = x.X == op.Val
				case *ssa.UnOp:
					deref = x.Op == token.MUL && x.X == op.Val
				case *ssa.Call:
					// method call with the value as receiver of a pointer method that derefs: treat as deref
					if len(PArgs(&x.Call)) > 0 && PArgs(&x.Call)[0] == op.Val && x.Call.Signature().Recv() != nil {
						deref = true
					}
				}
				if !deref {
					continue
				}
				guarded := false
				for _, g := range GuardingIfs(u) {
					bo, ok := g.If.Cond.(*ssa.BinOp)
					if !ok {
						continue
					}
					var other ssa.Value
					if bo.X == op.Val {
						other = bo.Y
					} else if bo.Y == op.Val {
						other = bo.X
					}
					if other == nil || !IsNilConst(other) {
						continue
					}
					if bo.Op == token.NEQ && g.Succ == 0 || bo.Op == token.EQL && g.Succ == 1 {
						guarded = true
					}
				}
				if !guarded {
					bad = fmt.Sprintf("%s dereferences the received message at %s without a nil test", FuncName(op.Fn), p.Pos(u.Pos()))
				}
			}
		}
		c.Check(rule, key, p, posOfOps(sc.Ops), bad == "", fmt.Sprintf("a nil message can be sent (%s); all %d receive site(s) test for nil before dereferencing", mayNil, nrecv), "a nil message can be sent on "+sc.Field+" ("+mayNil+": e.g. shim data [[42]] or [null]) and "+bad+": nil-pointer panic in a goroutine without recover kills the agent")
	}
}

// ruleShimSessionIDs: the key under which the open handler stores a new
// connection in the session table is produced by an atomic
// fetch-and-increment (atomic.AddUint64) — a unique value per open call —
// and is the same value that is reported to the client.
func ruleShimSessionIDs(c *Ctx, p *Prog, rule string) {
	se := resolveShimEndpoints(c, p, rule)
	if se == nil || se.Inner == nil {
		return
	}
	in := se.Inner
	var sts []ssa.Instruction
	EachInstr(in, func(i ssa.Instruction) {
		if cc := CallOf(i); cc != nil {
			switch CalleeName(cc) {
			case "(*sync.Map).Store", "(*sync.Map).LoadOrStore", "(*sync.Map).Swap", "(*sync.Map).CompareAndSwap":
				sts = append(sts, i)
			}
		}
	})
	if len(sts) == 0 {
		c.Bad(rule, "open:session-id-is-unique", p, in.Pos(), "the open endpoint stores no connection in the session table")
		return
	}
	st := sts[0]
	key := Args(CallOf(st))[1]
	isAdd := func(v ssa.Value) bool {
		if call, ok := v.(*ssa.Call); ok {
			switch CalleeName(call.Common()) {
			case "sync/atomic.AddUint64", "sync/atomic.AddInt64", "sync/atomic.AddUint32", "sync/atomic.AddInt32", "(*sync/atomic.Uint64).Add", "(*sync/atomic.Int64).Add", "github.com/google/uuid.New", "github.com/google/uuid.NewRandom":
				return true
			}
		}
		return false
	}
	fromAdd, fromLoad := true, false
	where := ""
	for _, s := range sts {
		k := Args(CallOf(s))[1]
		if !onEveryPathFrom(k, isAdd) {
			fromAdd = false
			where = p.Pos(s.Pos())
		}
		SliceBack(k, func(v ssa.Value) bool {
			if call, ok := v.(*ssa.Call); ok {
				switch CalleeName(call.Common()) {
				case "sync/atomic.LoadUint64", "sync/atomic.LoadInt64", "(*sync/atomic.Uint64).Load", "(*sync/atomic.Int64).Load":
					fromLoad = true
				}
			}
			return true
		})
	}
	// … and of nothing the client chose: an ID that embeds request data (the path, "for the
	// logs") need not survive the JSON round trip to the client and back — invalid UTF-8 is
	// replaced — so the session can be opened but never polled, fed or closed
	fromRequest := ""
	for _, s := range sts {
		SliceBack(Args(CallOf(s))[1], func(v ssa.Value) bool {
			if prm, isP := v.(*ssa.Parameter); isP && NamedType(prm.Type()) == "net/http.Request" && helperOf(prm.Parent()) == nil {
				fromRequest = "the request (" + prm.Name() + ") at " + p.Pos(s.Pos())
			}
			return true
		})
	}
	c.Check(rule, "open:session-id-is-the-counter-only", p, st.Pos(), fromRequest == "", "the session ID depends on the counter, not on request data", "the session ID is built from "+fromRequest+": client-chosen bytes in the ID (a percent-decoded path that is not valid UTF-8) are altered by json.Marshal in the open answer, the ID the client echoes no longer matches the table key, and the open session can never be polled or closed — its backend websocket stays open")
	c.Check(rule, "open:session-id-is-unique", p, st.Pos(), fromAdd && !fromLoad, fmt.Sprintf("%d store(s) into the session table: on every path the key derives from an atomic fetch-and-increment of the session counter: no two open calls get the same ID", len(sts)), "the session ID stored in the table "+where+" does not derive on every path from an atomic increment of the session counter (increment on every path: "+fmt.Sprint(fromAdd)+", plain load: "+fmt.Sprint(fromLoad)+"): two open calls can be given (or choose) the same ID, the second connection replaces the first in the table or collides with a generated ID, and each client then polls/sends on the other's websocket")
	// the ID reported to the client is the stored key
	as := AllocsOf(in, "agent/websockets.sessionMessage")
	ok := false
	for _, a := range as {
		if v, has := LiteralField(a, "ID"); has {
			// key is MakeInterface(string id)
			if SameValue(v, key) {
				ok = true
			}
		}
	}
	c.Check(rule, "open:reported-id-is-stored-key", p, st.Pos(), ok, "the ID returned to the client is the key the connection is stored under", "the session ID returned to the client is not the key under which the connection was stored")
}

// rulePooledMemory: no sync.Pool traffic in the given packages. Buffers that
// carry request/response/message bytes across calls or goroutines must be
// owned by the call; a pooled buffer that is put back while a slice of it is
// still referenced lets another request overwrite it. Ownership of pooled
// memory is not analysed here, so any use is reported (fail closed).
func rulePooledMemory(c *Ctx, p *Prog, rule string, pkgs ...string) {
	n := 0
	var hits []ssa.Instruction
	for _, pk := range pkgs {
		for _, fn := range p.FuncsIn(pk) {
			EachInstr(fn, func(i ssa.Instruction) {
				if CallOf(i) != nil {
					n++
				}
				if IsCall(i, "(*sync.Pool).Get", "(*sync.Pool).Put") {
					hits = append(hits, i)
				}
			})
		}
	}
	c.Check(rule, "no-pooled-buffers:"+strings.Join(pkgs, ","), p, posOf(hits), len(hits) == 0 && n > 20, fmt.Sprintf("%d call sites inspected: no sync.Pool Get/Put — byte buffers are owned by the call that fills them", n), fmt.Sprintf("sync.Pool is used at %s: a pooled buffer that is put back while a slice of it is still referenced (a parsed body reader, a partially consumed message, a rendered page) is overwritten by a concurrent request; ownership of pooled memory is not analysed, so this is reported", posStr(p, firstOf(hits))))
}

// ruleReverseProxyFields: the backend-facing ReverseProxy of agent.hostProxy
// only has Transport, FlushInterval and ModifyResponse set.
func ruleReverseProxyFields(c *Ctx, p *Prog, rule string) {
	hp := c.need(p, rule, "agent.hostProxy")
	if hp == nil {
		return
	}
	allowed := map[string]string{"Transport": "transport choice", "FlushInterval": "streaming (C05)", "ModifyResponse": "response-side shim injection (C14)"}
	n := 0
	for _, fn := range WithClosures(hp) {
		EachInstr(fn, func(i ssa.Instruction) {
			st, ok := i.(*ssa.Store)
			if !ok {
				return
			}
			base, f, ok := FieldAddrOf(st.Addr)
			if !ok || NamedType(base.Type()) != "net/http/httputil.ReverseProxy" {
				return
			}
			n++
			_, okf := allowed[f]
			if f == "ErrorLog" {
				okf = plainStdLogger(st.Val)
				if okf {
					c.OK(rule, "hostProxy:ReverseProxy."+f, p, st.Pos(), "the proxy's error log is a plain logger over the process's standard streams: it neither blocks nor writes the answer")
					return
				}
			}
			if f == "ModifyResponse" {
				// … and the response hook is the shim's own function, not a wrapper that does more to
				// the response first (a gunzip step that fails on the bodiless reply to a HEAD turns
				// the backend's answer into a 502)
				isShim := false
				for _, r := range Roots(st.Val) {
					if CallResult(r, 0, ModPath+"/agent/websockets.ShimBody") != nil {
						isShim = true
					} else {
						isShim = false
						break
					}
				}
				c.Check(rule, "hostProxy:ReverseProxy.ModifyResponse-is-the-shim-hook", p, st.Pos(), isShim, "ModifyResponse is the function websockets.ShimBody returned", "ReverseProxy.ModifyResponse is "+PathOf(st.Val)+", not the function returned by websockets.ShimBody: whatever else that hook does to a response (decode, rewrite, fail) happens to every reply — an error it returns for a reply it cannot handle becomes a 502 without the backend's status and headers")
			}
			c.Check(rule, "hostProxy:ReverseProxy."+f, p, st.Pos(), okf, "allowed override: "+allowed[f], "ReverseProxy."+f+" is overridden: requests/responses no longer pass the stock single-host director and transport defaults (e.g. a Director that deletes Accept-Encoding makes the transport transparently gunzip every reply, changing body and entity headers of non-HTML responses; Rewrite mode strips X-Forwarded-*)")
		})
	}
	if n == 0 {
		c.Unk(rule, "hostProxy:ReverseProxy-fields", p, hp.Pos(), "no field of the backend-facing ReverseProxy is set in hostProxy (expected at least FlushInterval)")
	}
	// the dial hooks of the backend-facing transport are stateless: a closure over the standard
	// dialers, not a method of a module type that can remember an earlier failure
	nd := 0
	for _, fn := range WithClosures(hp) {
		EachInstr(fn, func(i ssa.Instruction) {
			st, ok := i.(*ssa.Store)
			if !ok {
				return
			}
			base, f, ok := FieldAddrOf(st.Addr)
			if !ok {
				return
			}
			switch NamedType(base.Type()) {
			case "net/http.Transport", "golang.org/x/net/http2.Transport":
			default:
				return
			}
			if !strings.HasPrefix(f, "Dial") && f != "Proxy" {
				return
			}
			nd++
			bad := ""
			scan := func(g *ssa.Function) {
				if g.Parent() == nil && (g.Signature.Recv() != nil || isBoundWrapper(g)) {
					bad = "a method (value) of a module type: " + FuncName(g)
					return
				}
				for _, h := range WithClosures(g) {
					// a plain function or literal: it must not keep state either
					EachInstrRaw(h, func(j ssa.Instruction) {
						var ops []*ssa.Value
						for _, op := range j.Operands(ops) {
							if op == nil || *op == nil {
								continue
							}
							if gl, isG := (*op).(*ssa.Global); isG && gl.Pkg != nil && strings.HasPrefix(gl.Pkg.Pkg.Path(), ModPath) {
								if _, isFn := derefT(gl.Type()).Underlying().(*types.Signature); !isFn {
									bad = "a function that uses the package variable " + GlobalName(gl)
								}
							}
						}
					})
				}
				for _, h := range WithClosures(g) {
					EachInstrRaw(h, func(j ssa.Instruction) {
						cc := CallOf(j)
						if cc == nil {
							return
						}
						if callee := StaticFunc(cc); callee != nil && p.IsModFunc(callee) {
							bad = "a literal that calls " + FuncName(callee)
						}
					})
				}
			}
			switch v := Peel(st.Val).(type) {
			case *ssa.MakeClosure:
				scan(v.Fn.(*ssa.Function))
			case *ssa.Function:
				if p.IsModFunc(v) {
					scan(v)
				}
			default:
				if !IsNilConst(st.Val) {
					bad = "not a function literal"
				}
			}
			c.Check(rule, "hostProxy:Transport."+f+"-is-stateless", p, st.Pos(), bad == "", "the dial hook is a closure over the standard dialers", "the backend-facing transport's "+f+" is "+bad+": a dialer with memory (a remembered failure, a hold-off, a pool of its own) can fail requests issued after the backend has recovered — one unreachable moment is no longer confined to the requests that met it")
		})
	}
	if nd == 0 {
		c.Unk(rule, "hostProxy:Transport-dial-hooks", p, hp.Pos(), "the HTTP/2 transport of hostProxy no longer sets a dial hook")
	}
}

// ruleInterimThenFinal simulates, by partial evaluation, WriteHeader(103)
// followed by WriteHeader(404) on every ResponseWriter implementation of the
// module: the receiver-field stores reachable in the first call (constants or
// the status) become the field values of the second call, in which the final
// status must still be forwarded / published.
func ruleInterimThenFinal(c *Ctx, p *Prog, rule string) {
	for _, t := range ResponseWriterImpls(p) {
		tn := NamedTypeRel(t)
		fn := p.MethodOf(t, "WriteHeader")
		if fn == nil || len(fn.Blocks) == 0 || len(fn.Params) < 2 {
			continue
		}
		recv, status := ParamAt(fn, 0), ParamAt(fn, 1)
		zero := func(ty types.Type) (constant.Value, bool) {
			if b, ok := ty.Underlying().(*types.Basic); ok {
				switch {
				case b.Info()&types.IsBoolean != 0:
					return constant.MakeBool(false), true
				case b.Info()&types.IsInteger != 0:
					return IntC(0), true
				case b.Info()&types.IsString != 0:
					return constant.MakeString(""), true
				}
			}
			return nil, false
		}
		mkEnv := func(st int64, fields map[string]constant.Value) Env {
			return func(v ssa.Value) (constant.Value, bool) {
				if v == ssa.Value(status) {
					return IntC(st), true
				}
				if base, f, ok := FieldLoad(v); ok && rootIs(base, recv) {
					if cv, ok := fields[f]; ok {
						return cv, true
					}
					return zero(v.Type())
				}
				return nil, false
			}
		}
		// first call: 103
		env1 := mkEnv(103, map[string]constant.Value{})
		after := map[string]constant.Value{}
		for _, b := range fn.Blocks {
			for _, in := range b.Instrs {
				st, ok := in.(*ssa.Store)
				if !ok {
					continue
				}
				base, f, ok := FieldAddrOf(st.Addr)
				if !ok || !rootIs(base, recv) {
					continue
				}
				if h, _ := (&Walk{Target: func(i ssa.Instruction) bool { return i == in }, Edge: EdgeUnder(env1)}).FromBlock(fn.Blocks[0]); h == nil && !(b == fn.Blocks[0]) {
					continue
				}
				if b == fn.Blocks[0] {
					// entry block instruction is always reached
				}
				if cv, ok := Eval(st.Val, env1); ok {
					after[f] = cv
				}
			}
		}
		env2 := mkEnv(404, after)
		isForward := func(i ssa.Instruction) bool {
			switch x := i.(type) {
			case *ssa.Send:
				return true
			case *ssa.Select:
				for _, s := range x.States {
					if s.Dir == types.SendOnly {
						return true
					}
				}
			}
			if cc := CallOf(i); cc != nil {
				n := CalleeName(cc)
				if strings.HasSuffix(n, ").WriteHeader") && len(Args(cc)) == 2 {
					if a := Args(cc); a[0] != ssa.Value(recv) || true {
						// forwarding the method's own status to another writer
						if a[1] == ssa.Value(status) {
							return true
						}
					}
				}
			}
			return false
		}
		h, _ := (&Walk{Target: isForward, Edge: EdgeUnder(env2)}).FromBlock(fn.Blocks[0])
		c.Check(rule, tn+":final-after-interim-is-forwarded", p, fn.Pos(), h != nil, "after WriteHeader(103) the state of the writer still lets WriteHeader(404) forward/publish the final status", tn+": after an interim WriteHeader(103) the writer's state ("+fmt.Sprint(after)+") makes WriteHeader(404) forward nothing: the final status is swallowed (the client sees the interim code or an implicit 200)")
	}
}

// ruleSharedScratch: a closure that outlives the call that created it (it is
// returned, stored or handed to another function — an http handler, a
// ModifyResponse hook) runs once per request, possibly concurrently. Such a
// closure must not write into byte storage captured from the creating call
// (a []byte, byte array or bytes.Buffer allocated once outside it): every
// activation would fill the same memory, and one client is served bytes read
// for another. Package-level byte buffers are the same hazard.
func ruleSharedScratch(c *Ctx, p *Prog, rule string, pkgs ...string) {
	isByteStore := func(t types.Type) bool {
		for {
			if pt, ok := t.Underlying().(*types.Pointer); ok {
				t = pt.Elem()
				continue
			}
			break
		}
		switch u := t.Underlying().(type) {
		case *types.Slice:
			b, ok := u.Elem().Underlying().(*types.Basic)
			return ok && b.Kind() == types.Byte
		case *types.Array:
			b, ok := u.Elem().Underlying().(*types.Basic)
			return ok && b.Kind() == types.Byte
		}
		n := NamedType(t)
		return n == "bytes.Buffer" || n == "bufio.Reader" || n == "bufio.Writer" || n == "strings.Builder"
	}
	// writes through v (a value derived from captured storage)
	var writes func(v ssa.Value, depth int) ssa.Instruction
	writes = func(v ssa.Value, depth int) ssa.Instruction {
		if depth > 6 {
			return nil
		}
		for _, r := range Refs(v) {
			switch x := r.(type) {
			case *ssa.UnOp:
				if x.Op == token.MUL {
					if w := writes(x, depth+1); w != nil {
						return w
					}
				}
			case *ssa.Slice:
				if w := writes(x, depth+1); w != nil {
					return w
				}
			case *ssa.IndexAddr:
				for _, u := range Refs(x) {
					if st, ok := u.(*ssa.Store); ok && st.Addr == ssa.Value(x) {
						return st
					}
				}
			case *ssa.FieldAddr, *ssa.ChangeType, *ssa.Phi:
				if w := writes(x.(ssa.Value), depth+1); w != nil {
					return w
				}
			case ssa.CallInstruction:
				cc := x.Common()
				if b, ok := cc.Value.(*ssa.Builtin); ok {
					if (b.Name() == "copy" || b.Name() == "append") && len(PArgs(cc)) > 0 && PArgs(cc)[0] == v {
						return x
					}
					continue
				}
				name := CalleeName(cc)
				short := name[strings.LastIndex(name, ".")+1:]
				args := Args(cc)
				for ai, a := range args {
					if a != v {
						continue
					}
					recvLike := ai == 0 && (cc.IsInvoke() || (cc.StaticCallee() != nil && cc.StaticCallee().Signature.Recv() != nil))
					switch {
					case recvLike && (strings.HasPrefix(short, "Write") || short == "Reset" || short == "ReadFrom" || short == "Truncate" || short == "Grow" || strings.HasPrefix(short, "Read") || short == "Next" || short == "Discard" || short == "Flush" || short == "Peek"):
						if isByteStore(a.Type()) && NamedType(derefT(a.Type())) != "" {
							return x
						}
					case !recvLike && (short == "Read" || short == "ReadFull" || short == "ReadAtLeast" || short == "ReadAt" || short == "CopyBuffer" || short == "PutUvarint" || short == "PutVarint" || strings.HasPrefix(short, "Append") || strings.HasPrefix(short, "PutUint")):
						return x
					}
				}
			}
		}
		return nil
	}
	n := 0
	for _, pk := range pkgs {
		for _, fn := range p.FuncsIn(pk) {
			EachInstr(fn, func(i ssa.Instruction) {
				mc, ok := i.(*ssa.MakeClosure)
				if !ok {
					return
				}
				cl := mc.Fn.(*ssa.Function)
				// does the closure outlive / run more than once?
				escapes := false
				var follow func(v ssa.Value, d int)
				follow = func(v ssa.Value, d int) {
					if d > 4 {
						return
					}
					for _, r := range Refs(v) {
						switch x := r.(type) {
						case ssa.CallInstruction:
							cc := x.Common()
							if cc.Value == v {
								if _, isGo := x.(*ssa.Go); isGo && InLoop(x.Block()) {
									escapes = true
								}
								continue // immediate call / go / defer of the literal
							}
							if IsCall(x, "(*sync.Once).Do") {
								continue
							}
							escapes = true
						case *ssa.ChangeType:
							follow(x, d+1)
						case *ssa.MakeInterface:
							follow(x, d+1)
						case *ssa.Store, *ssa.Return, *ssa.Phi, *ssa.MapUpdate, *ssa.Send:
							escapes = true
						}
					}
				}
				follow(mc, 0)
				if !escapes {
					return
				}
				n++
				for fi, fv := range cl.FreeVars {
					if !isByteStore(fv.Type()) || fi >= len(mc.Bindings) {
						continue
					}
					if w := writes(fv, 0); w != nil {
						c.Bad(rule, "shared-scratch:"+FuncName(cl)+":"+fv.Name(), p, w.Pos(), "the closure "+FuncName(cl)+" outlives the call that creates it (it is returned/stored/registered, so it runs once per request, concurrently) and writes at "+p.Pos(w.Pos())+" into byte storage `"+fv.Name()+"` captured from "+FuncName(fn)+": all activations share that memory, so one client can be served bytes that were read for another")
					}
				}
			})
			// package-level byte buffers written outside init
			EachInstr(fn, func(i ssa.Instruction) {
				for _, op := range i.Operands(nil) {
					g, ok := (*op).(*ssa.Global)
					if !ok || !isByteStore(g.Type()) || strings.HasPrefix(fn.Name(), "init") {
						continue
					}
					if v, isV := i.(ssa.Value); isV {
						if w := writes(v, 0); w != nil {
							c.Bad(rule, "shared-scratch:global:"+g.Name(), p, w.Pos(), "package-level byte storage "+g.Name()+" is written in "+FuncName(fn)+": concurrent requests share it")
						}
					}
				}
			})
		}
	}
	// append(x.f, …) whose result is used as a value of its own (not stored back into x.f): when
	// x.f has spare capacity the appended bytes are written into x.f's backing array, which every
	// user of x shares — two concurrent activations overwrite each other's bytes. (A slice made
	// from a string or literal usually has spare capacity: allocation sizes are rounded up.)
	for _, pk := range pkgs {
		for _, fn := range p.AllFuncsIn(pk) {
			EachInstrRaw(fn, func(i ssa.Instruction) {
				call, ok := i.(*ssa.Call)
				if !ok {
					return
				}
				b, isB := call.Call.Value.(*ssa.Builtin)
				if !isB || b.Name() != "append" || len(call.Call.Args) == 0 {
					return
				}
				dst := call.Call.Args[0]
				if !isByteStore(dst.Type()) {
					return
				}
				ld, isLd := dst.(*ssa.UnOp)
				if !isLd || ld.Op != token.MUL {
					return
				}
				var addr ssa.Value
				switch a := ld.X.(type) {
				case *ssa.FieldAddr:
					// a field of the function's own fresh value is private
					if al, isAl := a.X.(*ssa.Alloc); isAl && al.Parent() == fn {
						return
					}
					addr = a
				case *ssa.Global:
					addr = a
				default:
					return
				}
				// stored back into the same place?
				back := false
				var follow func(v ssa.Value, d int)
				follow = func(v ssa.Value, d int) {
					if d > 4 {
						return
					}
					for _, r := range Refs(v) {
						switch x := r.(type) {
						case *ssa.Store:
							if x.Val == v && PathOf(x.Addr) == PathOf(addr) {
								back = true
							}
						case *ssa.Phi:
							follow(x, d+1)
						case *ssa.Call:
							if bb, ok := x.Call.Value.(*ssa.Builtin); ok && bb.Name() == "append" && len(x.Call.Args) > 0 && x.Call.Args[0] == v {
								follow(x, d+1)
							}
						case *ssa.Slice:
							follow(x, d+1)
						}
					}
				}
				follow(call, 0)
				if !back {
					c.Bad(rule, "shared-scratch:append-to-shared-field:"+FuncName(fn), p, call.Pos(), "append("+PathOf(dst)+", …) in "+FuncName(fn)+" builds a new value on top of a slice that lives in a shared object and is not stored back: with spare capacity the appended bytes land in the shared backing array, so concurrent activations overwrite each other's output (one client's page carries another's URL)")
				}
			})
		}
	}
	c.Check(rule, "shared-scratch:"+strings.Join(pkgs, ","), p, 0, n >= 3, fmt.Sprintf("%d long-lived closures (handlers, hooks, callbacks) inspected: none writes into byte storage captured from its creator, no package-level byte buffer is written", n), fmt.Sprintf("only %d long-lived closures found (expected handlers and hooks): the rule no longer sees the per-request closures", n))
}

func derefT(t types.Type) types.Type {
	for {
		pt, ok := t.Underlying().(*types.Pointer)
		if !ok {
			return t
		}
		t = pt.Elem()
	}
}

// ruleAppResponseCacheKey: the App Engine proxy's GET response cache. The key
// under which a response is stored and looked up must be one value, an
// injective encoding of (user, URL): fmt.Sprintf with a constant format that
// renders both components with %q, never sliced, hashed-and-truncated or
// otherwise shortened (a helper is followed one level).
func ruleAppResponseCacheKey(c *Ctx, p *Prog, rule string) {
	ph := c.need(p, rule, "app.proxyHandler")
	if ph == nil {
		return
	}
	rd := c.UniqueCall(rule, p, ph, false, ModPath+"/app.readCachedResponse")
	wr := c.UniqueCall(rule, p, ph, false, ModPath+"/app.cacheResponse")
	if rd == nil || wr == nil {
		return
	}
	kr, kw := Args(CallOf(rd))[1], Args(CallOf(wr))[1]
	// a key built only on the GET path: the zero value of the other path never reaches the store
	if phi, ok := kw.(*ssa.Phi); ok {
		if vs := PhiValuesAt(phi, wr); len(vs) == 1 {
			kw = vs[0]
		}
	}
	if phi, ok := kr.(*ssa.Phi); ok {
		if vs := PhiValuesAt(phi, rd); len(vs) == 1 {
			kr = vs[0]
		}
	}
	c.Check(rule, "response-cache:lookup-and-store-use-one-key", p, wr.Pos(), SameValue(kr, kw), "the cached response is stored under the very key it is looked up with", "the response cache is written under "+PathOf(kw)+" but read under "+PathOf(kr))
	// expand the key to the expressions that can produce it
	var sprintfs []*ssa.Call
	bad := ""
	var expand func(v ssa.Value, depth int)
	expand = func(v ssa.Value, depth int) {
		for _, r := range Roots(v) {
			call, ok := r.(*ssa.Call)
			if !ok {
				if ex, isE := r.(*ssa.Extract); isE {
					call, ok = ex.Tuple.(*ssa.Call)
				}
			}
			if !ok {
				bad = "the key can be " + PathOf(r) + " (" + fmt.Sprintf("%T", r) + ")"
				continue
			}
			if CalleeName(call.Common()) == "fmt.Sprintf" {
				sprintfs = append(sprintfs, call)
				continue
			}
			if f := call.Common().StaticCallee(); f != nil && len(f.Blocks) > 0 && depth < 2 && strings.HasPrefix(FuncName(f), "app") {
				for _, ret := range Returns(f) {
					expand(ReturnValue(ret, 0), depth+1)
				}
				continue
			}
			bad = "the key is produced by " + CalleeName(call.Common())
		}
	}
	expand(kr, 0)
	for _, sp := range sprintfs {
		format, isC := ConstString(PArgs(&sp.Call)[0])
		nq := strings.Count(format, "%q")
		nverbs := strings.Count(format, "%") - 2*strings.Count(format, "%%")
		nargs := -1
		if len(PArgs(&sp.Call)) > 1 {
			for _, r := range Roots(PArgs(&sp.Call)[1]) {
				if sl, isS := r.(*ssa.Slice); isS {
					if arr, isA := sl.X.(*ssa.Alloc); isA {
						if at, isArr := derefT(arr.Type()).Underlying().(*types.Array); isArr {
							nargs = int(at.Len())
						}
					}
				}
			}
		}
		if !isC || nq != 2 || nverbs != 2 || nargs != 2 {
			bad = fmt.Sprintf("format %q with %d arguments does not render exactly the two components (user, URL) with %%q", format, nargs)
		}
	}
	if len(sprintfs) == 0 && bad == "" {
		bad = "no fmt.Sprintf produces the key"
	}
	c.Check(rule, "response-cache:key-injective", p, rd.Pos(), bad == "", "the key is fmt.Sprintf(\"…%q…%q\", user, URL) on every path: distinct (user, URL) pairs have distinct keys", "the response-cache key is not an injective encoding of (user, URL): "+bad+": two different requests can share one cache entry, and the second client is served the response produced for the first")
	// components: the user's e-mail and the request URL
	sawUser, sawURL := false, false
	SliceBack(kr, func(v ssa.Value) bool {
		if call, ok := v.(*ssa.Call); ok && CalleeName(call.Common()) == "(*net/url.URL).String" {
			if PathOf(PArgs(&call.Call)[0]) == P(ph, 4)+".URL" {
				sawURL = true
			}
		}
		if _, f, ok := FieldLoad(v); ok && f == "Email" {
			sawUser = true
		}
		return true
	})
	// … verbatim: each rendered component is the e-mail or the URL string itself, not a function of it
	// (a masked, lower-cased or shortened user tag maps different users to one key)
	verb := ""
	ncomp := 0
	for _, sp := range sprintfs {
		if len(PArgs(&sp.Call)) < 2 {
			continue
		}
		for _, r := range Roots(PArgs(&sp.Call)[1]) {
			sl, isS := r.(*ssa.Slice)
			if !isS {
				continue
			}
			for _, u := range Refs(sl.X) {
				ia, isIA := u.(*ssa.IndexAddr)
				if !isIA {
					continue
				}
				for _, uu := range Refs(ia) {
					st, isSt := uu.(*ssa.Store)
					if !isSt || st.Addr != ssa.Value(ia) {
						continue
					}
					ncomp++
					v := st.Val
					if mi, isMI := v.(*ssa.MakeInterface); isMI {
						v = mi.X
					}
					okc := true
					for _, root := range Roots(v) {
						if _, f, isF := FieldLoad(root); isF && f == "Email" {
							continue
						}
						if call, isC := root.(*ssa.Call); isC && CalleeName(call.Common()) == "(*net/url.URL).String" {
							continue
						}
						okc = false
						verb = "component " + PathOf(root) + " at " + p.Pos(st.Pos())
					}
					_ = okc
				}
			}
		}
	}
	c.Check(rule, "response-cache:components-verbatim", p, rd.Pos(), verb == "" && ncomp >= 2, fmt.Sprintf("the %d rendered components are the user's e-mail and r.URL.String() themselves", ncomp), "the response-cache key renders "+verb+" instead of the e-mail / URL itself: a masked, normalised or shortened component is not injective (a***@corp.example stands for alice and adam), so one user is served another user's cached response")
	c.Check(rule, "response-cache:key-components", p, rd.Pos(), sawUser && sawURL, "the key is built from the authenticated user's e-mail and the full request URL", fmt.Sprintf("the response-cache key does not depend on both the user e-mail (%v) and r.URL.String() (%v): responses are shared across users or URLs", sawUser, sawURL))
	// only GETs are served from / stored into the cache
	for _, site := range []struct {
		name string
		in   ssa.Instruction
	}{{"lookup", rd}, {"store", wr}} {
		okg := false
		for _, g := range GuardConds(site.in) {
			if bo, ok := g.Cond.(*ssa.BinOp); ok && ((bo.Op == token.EQL && g.Truth) || (bo.Op == token.NEQ && !g.Truth)) {
				s1, c1 := ConstString(bo.X)
				s2, c2 := ConstString(bo.Y)
				if (c1 && s1 == "GET") || (c2 && s2 == "GET") {
					okg = true
				}
			}
		}
		c.Check(rule, "response-cache:"+site.name+"-only-for-GET", p, site.in.Pos(), okg, "the cache "+site.name+" happens only for GET requests", "the cache "+site.name+" is not guarded by r.Method == GET: the answer to a POST/PUT is served from (or stored into) the cache")
	}
	// only a plain 200 is stored: the key is (user, URL), so the answer to a conditional or range
	// request (304, 206) — which depends on request headers the key does not contain — must never
	// become the answer to the next request for that URL
	ok200 := false
	for _, g := range GuardConds(wr) {
		if bo, ok := g.Cond.(*ssa.BinOp); ok && ((bo.Op == token.EQL && g.Truth) || (bo.Op == token.NEQ && !g.Truth)) {
			for _, pair := range [][2]ssa.Value{{bo.X, bo.Y}, {bo.Y, bo.X}} {
				if n, isC := ConstInt(pair[1]); isC && n == 200 {
					if _, f, isF := FieldLoad(pair[0]); isF && f == "StatusCode" {
						ok200 = true
					}
				}
			}
		}
	}
	c.Check(rule, "response-cache:store-only-status-200", p, wr.Pos(), ok200, "a response is stored in the cache only under response.StatusCode == 200", "the cache store is not guarded by response.StatusCode == 200: a 206 (the answer to one client's Range request) or another status that depends on request headers is stored under the header-less (user, URL) key and served to later requests for that URL — those clients receive the response to another request")
}

// ruleLoopSharedCapture: a goroutine started inside a loop must not capture a
// variable that lives outside the loop and is reassigned by it (the accepted
// connection, the request ID): the next iteration overwrites it while the
// goroutine of the previous one still uses it.
func ruleLoopSharedCapture(c *Ctx, p *Prog, rule string, min int, pkgs ...string) {
	n := 0
	for _, pk := range pkgs {
		for _, fn := range p.FuncsIn(pk) {
			EachInstr(fn, func(i ssa.Instruction) {
				g, ok := i.(*ssa.Go)
				if !ok || !InLoop(g.Block()) {
					return
				}
				n++
				mc, ok := g.Call.Value.(*ssa.MakeClosure)
				if !ok {
					return // go f(args…): the arguments are evaluated (copied) by this iteration
				}
				cl := mc.Fn.(*ssa.Function)
				for bi, b := range mc.Bindings {
					al, ok := b.(*ssa.Alloc)
					if !ok {
						continue
					}
					for _, r := range Refs(al) {
						// the same cell is stored to again and the goroutine started again without the
						// cell being re-created in between: a cycle through the store and the go
						// statement that avoids the allocation (the range variable of a `go 1.21`-or-older
						// module is one cell for the whole loop, even when the loop sits in another loop)
						if st, isSt := r.(*ssa.Store); isSt && st.Addr == ssa.Value(al) && reachAvoiding(st.Block(), g.Block(), al.Block()) && reachAvoiding(g.Block(), st.Block(), al.Block()) {
							name := "?"
							if bi < len(cl.FreeVars) {
								name = cl.FreeVars[bi].Name()
							}
							c.Bad(rule, "loop-shared-capture:"+FuncName(fn)+":"+name, p, g.Pos(), "the goroutine started per iteration in "+FuncName(fn)+" captures `"+name+"`, which is declared outside the loop and reassigned at "+p.Pos(st.Pos())+" on every iteration: while one goroutine is still setting up (or running), the next iteration replaces the value under it, so two goroutines serve the same connection/request and one is never served")
							return
						}
					}
				}
			})
		}
	}
	c.Check(rule, "loop-shared-capture:"+strings.Join(pkgs, ","), p, 0, n >= min, fmt.Sprintf("%d goroutine(s) started from loops inspected: each captures only variables of its own iteration (or objects the loop never reassigns)", n), fmt.Sprintf("only %d goroutines started from loops found, expected at least %d", n, min))
}

// rulePlainSingleHostProxy: fn builds its pass-through/back-end facing proxy
// with httputil.NewSingleHostReverseProxy and sets only the allowed fields.
func rulePlainSingleHostProxy(c *Ctx, p *Prog, rule, fnName string, allowed map[string]string) {
	fn := c.need(p, rule, fnName)
	if fn == nil {
		return
	}
	ctor := Calls(fn, "net/http/httputil.NewSingleHostReverseProxy")
	lits := 0
	for _, f := range WithClosures(fn) {
		EachInstr(f, func(i ssa.Instruction) {
			if al, ok := i.(*ssa.Alloc); ok && NamedType(derefT(al.Type())) == "net/http/httputil.ReverseProxy" {
				lits++
			}
		})
	}
	c.Check(rule, fnName+":stock-single-host-proxy", p, fn.Pos(), len(ctor) == 1 && lits == 0, "the proxy is httputil.NewSingleHostReverseProxy(target): the stock Director keeps Host, method, path, query, headers and X-Forwarded-* handling", fmt.Sprintf("%s does not build its proxy with exactly one httputil.NewSingleHostReverseProxy call (%d calls, %d hand-built ReverseProxy values): a hand-built proxy (Rewrite/SetURL, custom Director) changes Host and forwarding headers of passed-through requests", fnName, len(ctor), lits))
	for _, f := range WithClosures(fn) {
		EachInstr(f, func(i ssa.Instruction) {
			st, ok := i.(*ssa.Store)
			if !ok {
				return
			}
			base, fld, ok := FieldAddrOf(st.Addr)
			if !ok || NamedType(derefT(base.Type())) != "net/http/httputil.ReverseProxy" {
				return
			}
			why, okf := allowed[fld]
			c.Check(rule, fnName+":ReverseProxy."+fld, p, st.Pos(), okf, "allowed override: "+why, "ReverseProxy."+fld+" is overridden in "+fnName+": passed-through requests/responses no longer take the stock path")
		})
	}
}

// NamedTypesIn lists the named struct types declared in module package rel.
func (p *Prog) NamedTypesIn(rel string) []*types.Named {
	var out []*types.Named
	for ip, pk := range p.ModPkgs {
		if Rel(ip) != rel {
			continue
		}
		scope := pk.Types.Scope()
		for _, name := range scope.Names() {
			if tn, ok := scope.Lookup(name).(*types.TypeName); ok {
				if named, ok := tn.Type().(*types.Named); ok {
					if _, isStruct := named.Underlying().(*types.Struct); isStruct {
						out = append(out, named)
					}
				}
			}
		}
	}
	return out
}

// MethodsOf returns the SSA functions of the methods declared on named.
func (p *Prog) MethodsOf(named *types.Named) []*ssa.Function {
	var out []*ssa.Function
	for i := 0; i < named.NumMethods(); i++ {
		if f := p.SSA.FuncValue(named.Method(i)); f != nil {
			out = append(out, f)
		}
	}
	return out
}

// inSplicedBody: instruction i belongs to a new helper whose body is visited
// as part of fn (called synchronously from fn, transitively).
func inSplicedBody(fn *ssa.Function, i ssa.Instruction) bool {
	found := false
	EachInstr(fn, func(x ssa.Instruction) {
		if x == i {
			found = true
		}
	})
	return found
}

// ruleWriterMethodSets: the ResponseWriter implementations of the module and
// the response forwarder do not grow exported methods. net/http, ReverseProxy
// and http.ResponseController type-assert optional interfaces (Flusher,
// Hijacker, ReaderFrom, Unwrap, …): a new exported method changes how the
// standard library drives the writer (a Flush that performs an empty write
// makes Response.Write see an empty body; a ReadFrom bypasses Write).
func ruleWriterMethodSets(c *Ctx, p *Prog, rule string) {
	pn := pinnedTable()
	var ts []*types.Named
	ts = append(ts, ResponseWriterImpls(p)...)
	for _, name := range []string{"responseForwarder", "streamedBody", "attemptReader", "bufferedReadSeeker"} {
		for _, t := range p.NamedTypesIn("agent/utils") {
			if objName(t.Obj()) == name {
				ts = append(ts, t)
			}
		}
	}
	seen := map[*types.Named]bool{}
	for _, t := range ts {
		if seen[t] {
			continue
		}
		seen[t] = true
		rel := Rel(t.Obj().Pkg().Path())
		pp := pn.Pkgs[rel]
		if pp == nil {
			continue
		}
		tfp, pinnedType := pp.Types[objName(t.Obj())]
		pinnedM := map[string]bool{}
		for _, m := range tfp.Methods {
			pinnedM[m] = true
		}
		extra := ""
		for i := 0; i < t.NumMethods(); i++ {
			m := t.Method(i)
			if !m.Exported() || pinnedM[objName(m)] {
				continue
			}
			extra += " " + m.Name()
		}
		if !pinnedType {
			// a new writer type: it must not offer optional interfaces that bypass its own Write/WriteHeader
			extra = ""
			for i := 0; i < t.NumMethods(); i++ {
				switch n := t.Method(i).Name(); n {
				case "Flush", "FlushError", "Hijack", "ReadFrom", "Unwrap", "Push", "CloseNotify", "WriteString":
					extra += " " + n
				}
			}
		}
		c.Check(rule, "method-set:"+rel+"."+objName(t.Obj()), p, t.Obj().Pos(), extra == "", "no exported method beyond the pinned set: the standard library drives the writer only through Header/Write/WriteHeader (and the pinned extras)", rel+"."+objName(t.Obj())+" gained the exported method(s)"+extra+": net/http, ReverseProxy (FlushInterval) and ResponseController type-assert such methods and start calling them — e.g. a Flush implemented as an empty Write crosses the upload pipe as a zero-byte read, which Response.Write takes for an empty body: the client receives the headers and no body")
	}
}

// ruleCounterOnlyIncrements: the shim session counter is modified by exactly
// one atomic increment (by a positive constant); a decrement or reset hands
// an ID out twice.
func ruleCounterOnlyIncrements(c *Ctx, p *Prog, rule string) {
	se := resolveShimEndpoints(c, p, rule)
	if se == nil || se.Inner == nil {
		return
	}
	var ctr ssa.Value
	var sites []ssa.Instruction
	bad := ""
	for _, fn := range WithClosures(se.Create) {
		EachInstr(fn, func(i ssa.Instruction) {
			cc := CallOf(i)
			if cc == nil {
				return
			}
			n := CalleeName(cc)
			switch n {
			case "sync/atomic.AddUint64", "sync/atomic.AddInt64", "sync/atomic.AddUint32", "sync/atomic.AddInt32":
				sites = append(sites, i)
				ctr = PArgs(cc)[0]
				if d, ok := ConstInt(PArgs(cc)[1]); !ok || d <= 0 {
					bad = "the counter is modified by a non-positive or non-constant delta at " + p.Pos(i.Pos())
				}
			case "sync/atomic.StoreUint64", "sync/atomic.StoreInt64", "sync/atomic.SwapUint64", "sync/atomic.CompareAndSwapUint64", "sync/atomic.CompareAndSwapInt64", "(*sync/atomic.Uint64).Store", "(*sync/atomic.Uint64).CompareAndSwap", "(*sync/atomic.Uint64).Swap":
				bad = "the counter is overwritten at " + p.Pos(i.Pos())
			}
		})
	}
	_ = ctr
	// which of the atomic variables is the session counter: the one whose increment yields
	// the key under which the open handler stores the connection. Other atomic counters
	// (statistics) are not the session counter.
	if len(sites) > 1 {
		var idAdd ssa.Instruction
		for _, st := range Calls(se.Inner, "(*sync.Map).Store") {
			key := Args(CallOf(st))[1]
			for _, site := range sites {
				sv, isV := site.(ssa.Value)
				if !isV {
					continue
				}
				if reaches, _ := DerivesFrom(key, func(v ssa.Value) bool { return v == sv }, func(ssa.Value) bool { return false }); reaches {
					idAdd = site
				}
			}
		}
		if idAdd != nil {
			want := PathOf(PArgs(CallOf(idAdd))[0])
			var mine []ssa.Instruction
			bad = ""
			for _, fn := range WithClosures(se.Create) {
				EachInstr(fn, func(i ssa.Instruction) {
					cc := CallOf(i)
					if cc == nil || len(Args(cc)) == 0 || PathOf(Args(cc)[0]) != want {
						return
					}
					n := CalleeName(cc)
					switch {
					case strings.HasPrefix(n, "sync/atomic.Add"):
						mine = append(mine, i)
						if d, ok := ConstInt(PArgs(cc)[1]); !ok || d <= 0 {
							bad = "the counter is modified by a non-positive or non-constant delta at " + p.Pos(i.Pos())
						}
					case strings.HasPrefix(n, "sync/atomic.Store"), strings.HasPrefix(n, "sync/atomic.Swap"), strings.HasPrefix(n, "sync/atomic.CompareAndSwap"):
						mine = append(mine, i)
						bad = "the counter is overwritten at " + p.Pos(i.Pos())
					}
				})
				// plain stores to the counter
				EachInstr(fn, func(i ssa.Instruction) {
					if st, isSt := i.(*ssa.Store); isSt && PathOf(st.Addr) == want {
						mine = append(mine, i)
						bad = "the counter is overwritten at " + p.Pos(i.Pos())
					}
				})
			}
			sites = mine
		}
	}
	c.Check(rule, "open:counter-only-increments", p, posOf(sites), len(sites) == 1 && bad == "", "the session counter is touched by exactly one atomic increment: numbers are never given back", fmt.Sprintf("the session counter has %d modification sites (%s): a number that is given back (decrement on a failed dial, reset) is handed out again while an earlier session still uses it — two clients share one shim session", len(sites), bad))
}

// ruleNoDeferredCancelOnReturnedResponse: a function that returns an
// *http.Response (or hands its Body on) must not defer the cancel of the
// context the request was sent with: the body is read by the caller after the
// function returned, i.e. after the cancel.
func ruleNoDeferredCancelOnReturnedResponse(c *Ctx, p *Prog, rule string, pkgs ...string) {
	n := 0
	for _, pk := range pkgs {
		for _, fn := range p.AllFuncsIn(pk) {
			res := fn.Signature.Results()
			returnsResp := false
			for k := 0; k < res.Len(); k++ {
				if NamedType(res.At(k).Type()) == "net/http.Response" {
					returnsResp = true
				}
			}
			if !returnsResp || fn.Parent() != nil {
				continue
			}
			n++
			bad := ""
			EachInstrRaw(fn, func(i ssa.Instruction) {
				d, ok := i.(*ssa.Defer)
				if !ok {
					return
				}
				for _, r := range Roots(d.Call.Value) {
					if ex, isE := r.(*ssa.Extract); isE && ex.Index == 1 {
						if call, isC := ex.Tuple.(*ssa.Call); isC {
							switch CalleeName(call.Common()) {
							case "context.WithTimeout", "context.WithCancel", "context.WithDeadline", "context.WithTimeoutCause", "context.WithCancelCause":
								bad = p.Pos(d.Pos())
							}
						}
					}
				}
			})
			c.Check(rule, "no-deferred-cancel:"+FuncName(fn), p, fn.Pos(), bad == "", "returns an *http.Response and defers no context cancel: the body stays readable for the caller", FuncName(fn)+" returns an *http.Response but defers the cancel of a request context ("+bad+"): the context is cancelled when the function returns, the transport closes the connection, and the caller reads only what was already buffered — large or slowly arriving request bodies reach the backend truncated")
		}
	}
	if n == 0 {
		c.Unk(rule, "no-deferred-cancel:functions", p, 0, "no function returning *http.Response found in "+strings.Join(pkgs, ","))
	}
}

// ruleNoServerDeadlines: the stand-alone proxy's HTTP server arms no per-connection write or
// read deadline (http.Server.WriteTimeout / ReadTimeout, http.TimeoutHandler is C02.T). A
// write deadline is fixed when the request header has been read: a pending-list poll that
// waited longer than the deadline still takes the next request ID from the rendezvous
// channel and then fails to write it — the ID was offered once and is lost; a streamed
// response that lasts longer is cut.
func ruleNoServerDeadlines(c *Ctx, p *Prog, rule string) {
	n := 0
	bad := ""
	for _, fn := range p.AllFuncsIn("server") {
		EachInstrRaw(fn, func(i ssa.Instruction) {
			al, ok := i.(*ssa.Alloc)
			if !ok || NamedType(al.Type()) != "net/http.Server" {
				return
			}
			n++
			for _, fld := range []string{"WriteTimeout", "ReadTimeout"} {
				for _, u := range Refs(al) {
					fa, isFA := u.(*ssa.FieldAddr)
					if !isFA || fieldName(fa.X.Type(), fa.Field) != fld {
						continue
					}
					for _, w := range Refs(fa) {
						if st, isSt := w.(*ssa.Store); isSt && st.Addr == ssa.Value(fa) {
							if k, isC := ConstInt(st.Val); !isC || k != 0 {
								bad = fld + " is set on the http.Server at " + p.Pos(st.Pos())
							}
						}
					}
				}
			}
		})
	}
	c.Check(rule, "server:no-connection-deadlines", p, 0, bad == "", fmt.Sprintf("the proxy serves without per-connection read/write deadlines (%d http.Server value(s) inspected; http.Serve arms none)", n), bad+": the deadline is armed when the request header is read, so a pending-list poll that waited longer still receives the next request ID from the rendezvous channel and cannot write it — that client request is never forwarded — and long uploads/streamed responses are cut")
}

// ruleCheckThenActOneHold: in fn (with its transparent helpers) the miss of a cache lookup
// and the insertion that answers it happen under ONE hold of the mutex: no release of the
// lock lies between `Get` and `Add` of the same LRU. Two critical sections that are each
// locked make every access race-free and still let two activations both miss and both
// insert — the later insert replaces the earlier value (a session split over two jars).
func ruleCheckThenActOneHold(c *Ctx, p *Prog, rule, fnName string) {
	fn := c.need(p, rule, fnName)
	if fn == nil {
		return
	}
	const get, add = "(*github.com/golang/groupcache/lru.Cache).Get", "(*github.com/golang/groupcache/lru.Cache).Add"
	gets, adds := Calls(fn, get), Calls(fn, add)
	if len(gets) == 0 || len(adds) == 0 {
		c.Unk(rule, "lru:miss-and-insert-under-one-hold", p, fn.Pos(), "no lru Get/Add pair found in "+fnName)
		return
	}
	isUnlock := func(i ssa.Instruction) bool {
		if _, isDefer := i.(*ssa.Defer); isDefer {
			return false
		}
		if IsCall(i, "(*sync.Mutex).Unlock", "(*sync.RWMutex).Unlock", "(*sync.RWMutex).RUnlock") {
			return true
		}
		// leaving a function that deferred an unlock releases the lock there
		if _, isRD := i.(*ssa.RunDefers); isRD {
			rel := false
			EachInstrRaw(i.Parent(), func(j ssa.Instruction) {
				if d, isD := j.(*ssa.Defer); isD {
					switch CalleeName(&d.Call) {
					case "(*sync.Mutex).Unlock", "(*sync.RWMutex).Unlock", "(*sync.RWMutex).RUnlock":
						rel = true
					}
				}
			})
			// the deferred unlock of fn itself runs when fn returns: after the Add
			return rel && i.Parent() != fn
		}
		return false
	}
	bad := ""
	for _, g := range gets {
		isAdd := func(i ssa.Instruction) bool {
			for _, a := range adds {
				if i == a {
					return true
				}
			}
			return false
		}
		// a release reachable from the lookup before any insertion, after which an insertion is reachable
		rel, _ := (&Walk{Target: isUnlock, Avoid: isAdd, Ctx: fn}).FromInstr(g)
		if rel == nil {
			continue
		}
		if again, _ := (&Walk{Target: isAdd, Ctx: fn}).FromInstr(rel); again != nil {
			bad = "the lock is released at " + p.Pos(rel.Pos()) + " between the lookup at " + p.Pos(g.Pos()) + " and the insertion at " + p.Pos(again.Pos())
		}
	}
	c.Check(rule, "lru:miss-and-insert-under-one-hold", p, fn.Pos(), bad == "", "the lookup that misses and the insertion that follows run under one hold of the cache mutex", bad+": two concurrent requests of one session can both miss and both insert — the later insertion replaces the earlier jar and the cookies stored in it are lost")
}

// rulePollErrorOnlyWhenDrained: ReadServerMessages reports an error only on the not-ok
// branch of a receive from serverMessages, i.e. when the reader goroutine has closed the
// queue and everything it had queued was delivered. Any other test for "closed" (the done
// context, the closed flag) fires while messages received before the close are still
// queued: the poll answers 400, the endpoint forgets the session and they are lost.
func rulePollErrorOnlyWhenDrained(c *Ctx, p *Prog, rule string) {
	f := c.need(p, rule, "agent/websockets.(*Connection).ReadServerMessages")
	if f == nil {
		return
	}
	bad := ""
	n := 0
	for _, r := range Returns(f) {
		ev := ReturnValue(r, 1)
		if ev == nil || IsNilConst(ev) {
			continue
		}
		n++
		ok := false
		for _, g := range GuardingIfs(r) {
			cond, trueSucc := BoolTest(g.If)
			e, isE := cond.(*ssa.Extract)
			if !isE {
				continue
			}
			okIdx := false
			var ch ssa.Value
			switch t := e.Tuple.(type) {
			case *ssa.UnOp:
				if t.Op == token.ARROW && t.CommaOk && e.Index == 1 {
					okIdx, ch = true, t.X
				}
			case *ssa.Select:
				// comma-ok of a receive state: index 1 is recvOk of the chosen state
				if e.Index == 1 {
					for _, st := range t.States {
						if st.Dir == types.RecvOnly {
							if _, fld, isF := FieldLoad(Roots(st.Chan)[0]); isF && fld == "serverMessages" {
								okIdx, ch = true, st.Chan
							}
						}
					}
				}
			}
			if !okIdx || ch == nil {
				continue
			}
			if _, fld, isF := FieldLoad(Roots(ch)[0]); !isF || fld != "serverMessages" {
				continue
			}
			if g.Succ != trueSucc {
				ok = true
			}
		}
		if !ok {
			bad = "the error return at " + p.Pos(r.Pos())
		}
	}
	c.Check(rule, "poll:error-only-when-queue-closed-and-drained", p, f.Pos(), bad == "" && n > 0, "ReadServerMessages returns an error only on the not-ok branch of a receive from serverMessages (queue closed by the reader and empty)", bad+" is not on the not-ok branch of a receive from serverMessages: the session is reported closed while messages received before the backend closed are still queued — they are never delivered")
}

// plainStdLogger: a *log.Logger over the process's own standard streams —
// log.New(os.Stderr|os.Stdout|log.Writer(), prefix, flags) or log.Default(): it neither
// blocks on anything of the module nor writes to a client.
func plainStdLogger(v ssa.Value) bool {
	rs := Roots(v)
	if len(rs) == 0 {
		return false
	}
	for _, r := range rs {
		if CallResult(r, 0, "log.Default") != nil {
			continue
		}
		nl := CallResult(r, 0, "log.New")
		if nl == nil {
			return false
		}
		for _, w := range Roots(nl.Call.Args[0]) {
			pth, _ := AccessPath(w)
			if pth != "*global:Stderr" && pth != "*global:Stdout" && CallResult(w, 0, "log.Writer") == nil {
				return false
			}
		}
	}
	return true
}

// onEveryPathFrom: v contains a value accepted by src on every control-flow
// path (every edge of every phi on the way), not merely on one of them.
func onEveryPathFrom(v ssa.Value, src func(ssa.Value) bool) bool {
	memo := map[ssa.Value]bool{}
	var rec func(v ssa.Value, d int) bool
	rec = func(v ssa.Value, d int) bool {
		if v == nil || d > 40 {
			return false
		}
		if r, ok := memo[v]; ok {
			return r
		}
		memo[v] = false
		r := false
		if src(v) {
			r = true
		} else if phi, ok := v.(*ssa.Phi); ok {
			r = true
			for _, e := range phi.Edges {
				if e == v {
					continue
				}
				if !rec(e, d+1) {
					r = false
				}
			}
		} else if u, ok := v.(*ssa.UnOp); ok && u.Op == token.MUL {
			if cell := resolveCell(u.X); cell != nil && isLocalCell(cell) {
				ss := storesTo(cell)
				r = len(ss) > 0
				for _, s := range ss {
					if !rec(s, d+1) {
						r = false
					}
				}
			} else {
				r = rec(u.X, d+1)
			}
		} else {
			// one step of SliceBack: any operand suffices
			first := true
			SliceBack(v, func(w ssa.Value) bool {
				if first {
					first = false
					return true
				}
				if rec(w, d+1) {
					r = true
				}
				return false
			})
		}
		memo[v] = r
		return r
	}
	return rec(v, 0)
}

// reachAvoiding: b is reachable from a (by at least zero edges) without entering avoid;
// a and b themselves may not be avoid.
func reachAvoiding(a, b, avoid *ssa.BasicBlock) bool {
	if a == avoid || b == avoid {
		return false
	}
	seen := map[*ssa.BasicBlock]bool{}
	q := []*ssa.BasicBlock{a}
	first := true
	for len(q) > 0 {
		x := q[0]
		q = q[1:]
		if x == b && !first {
			return true
		}
		if x == b && first && a == b {
			// same block: a cycle back to itself is needed unless the order inside the block is
			// store-before-go, which the caller's two calls establish together
			first = false
			for _, s := range x.Succs {
				if s != avoid && !seen[s] {
					seen[s] = true
					q = append(q, s)
				}
			}
			continue
		}
		first = false
		for _, s := range x.Succs {
			if s != avoid && !seen[s] {
				seen[s] = true
				q = append(q, s)
			}
		}
	}
	return false
}

// ruleNoMutationOfHTTPDefaults: module code does not reconfigure net/http's process-wide
// defaults (DefaultTransport, DefaultClient, DefaultServeMux): the backend-facing reverse
// proxy runs on http.DefaultTransport, so a timeout or hook set "for the health check" on that
// very object applies to every forwarded request.
func ruleNoMutationOfHTTPDefaults(c *Ctx, p *Prog, rule string) {
	isDefault := func(v ssa.Value) string {
		for _, r := range Roots(v) {
			if ld, ok := r.(*ssa.UnOp); ok && ld.Op == token.MUL {
				r = ld.X
			}
			if g, ok := r.(*ssa.Global); ok && g.Pkg != nil && g.Pkg.Pkg.Path() == "net/http" {
				switch g.Name() {
				case "DefaultTransport", "DefaultClient", "DefaultServeMux":
					return "http." + g.Name()
				}
			}
		}
		return ""
	}
	bad := ""
	n := 0
	for _, fn := range p.AllFuncs {
		if !p.IsModFunc(fn) {
			continue
		}
		EachInstrRaw(fn, func(i ssa.Instruction) {
			st, ok := i.(*ssa.Store)
			if !ok {
				return
			}
			n++
			if g, isG := st.Addr.(*ssa.Global); isG && g.Pkg != nil && g.Pkg.Pkg.Path() == "net/http" {
				bad = "http." + g.Name() + " is replaced in " + FuncName(fn) + " at " + p.Pos(st.Pos())
				return
			}
			if base, fld, okf := FieldAddrOf(st.Addr); okf {
				// through a type assertion: http.DefaultTransport.(*http.Transport).X = …
				b := base
				for k := 0; k < 3; k++ {
					if ta, isTA := b.(*ssa.TypeAssert); isTA {
						b = ta.X
						continue
					}
					if ex, isE := b.(*ssa.Extract); isE {
						b = ex.Tuple
						continue
					}
					break
				}
				if d := isDefault(b); d != "" {
					bad = d + "." + fld + " is set in " + FuncName(fn) + " at " + p.Pos(st.Pos())
				}
			}
		})
	}
	c.Check(rule, "http-defaults:not-reconfigured", p, 0, bad == "" && n > 0, fmt.Sprintf("%d stores in module code inspected: none writes http.DefaultTransport/DefaultClient/DefaultServeMux or a field of them", n), bad+": the backend-facing reverse proxy (and every other user of the default) inherits the setting — a response-header timeout meant for health checks turns slow backend responses into the proxy's own 502")
}

// ruleReplayedRequestHasNoPeer: the request the agent replays to the backend was parsed off a
// byte stream, so it has no RemoteAddr — and must not be given one. httputil.ReverseProxy
// rewrites X-Forwarded-For whenever RemoteAddr parses as host:port: it joins the client's
// own values into one field and appends the peer. Setting the field "for the logs" alters a
// header every backend behind the agent receives.
func ruleReplayedRequestHasNoPeer(c *Ctx, p *Prog, rule string) {
	bad := ""
	n := 0
	for _, fn := range p.AllFuncs {
		if !p.IsModFunc(fn) {
			continue
		}
		if pk := fnPkg(fn); pk == nil || !(Rel(pk.Pkg.Path()) == "agent" || strings.HasPrefix(Rel(pk.Pkg.Path()), "agent/")) {
			continue
		}
		n++
		EachInstrRaw(fn, func(i ssa.Instruction) {
			if st, ok := i.(*ssa.Store); ok {
				if base, fld, okf := FieldAddrOf(st.Addr); okf && fld == "RemoteAddr" && NamedType(base.Type()) == "net/http.Request" {
					bad = FuncName(fn) + " sets RemoteAddr at " + p.Pos(st.Pos())
				}
			}
		})
	}
	c.Check(rule, "agent:replayed-request-has-no-peer-address", p, 0, bad == "" && n > 0, fmt.Sprintf("no agent code sets RemoteAddr of a request (%d functions inspected): the reverse proxy leaves the client's X-Forwarded-For fields as they came", n), bad+": the reverse proxy towards the backend then rewrites X-Forwarded-For (joins the client's values into one field and appends this address) — the backend no longer sees the header fields the client sent")
}

// ruleBackendTransportAcceptsAnyResponse: the transport the agent uses towards the backend
// keeps net/http's defaults for what it accepts: no cap on the size of the response header
// block, no deadline for the response header, no cap on connections per host. Any of them
// turns a backend response the property covers (a large Set-Cookie/CSP header block, a slow
// first byte) into a 502 of the agent's own making.
func ruleBackendTransportAcceptsAnyResponse(c *Ctx, p *Prog, rule string) {
	hp := c.need(p, rule, "agent.hostProxy")
	if hp == nil {
		return
	}
	deny := map[string]bool{"MaxResponseHeaderBytes": true, "ResponseHeaderTimeout": true, "MaxConnsPerHost": true, "MaxHeaderListSize": true, "MaxReadFrameSize": true}
	bad := ""
	n := 0
	for _, fn := range p.AllFuncsIn("agent") {
		EachInstrRaw(fn, func(i ssa.Instruction) {
			st, ok := i.(*ssa.Store)
			if !ok {
				return
			}
			base, f, ok := FieldAddrOf(st.Addr)
			if !ok {
				return
			}
			switch NamedType(base.Type()) {
			case "net/http.Transport", "golang.org/x/net/http2.Transport":
			default:
				return
			}
			n++
			if deny[f] {
				if cv, isC := st.Val.(*ssa.Const); isC && cv.Value != nil && cv.Value.ExactString() == "0" {
					return
				}
				bad = f + " is set in " + FuncName(fn) + " at " + p.Pos(st.Pos())
			}
		})
	}
	c.Check(rule, "agent:backend-transport-accepts-any-response", p, hp.Pos(), bad == "", fmt.Sprintf("no transport built by the agent limits the response header size, the time to the response header or the connections per host (%d transport field(s) inspected)", n), bad+": backend responses with a larger header block (or a slower first byte, or beyond the connection cap) are answered by the agent with a 502 of its own — the client does not receive the backend's status, headers and body")
}

// ruleShimBodiesReadWhole: the shim endpoints read the body of a request without a cap of
// their own. The body of a `data` request is a batch of messages of any size the page
// produced (binary frames are base64 in JSON); a MaxBytesReader/LimitReader "like the one on
// the pending list" truncates the JSON of a large batch, which is then refused as a whole —
// messages the client sent are never delivered.
func ruleShimBodiesReadWhole(c *Ctx, p *Prog, rule string) {
	bad := ""
	n := 0
	for _, fn := range p.AllFuncsIn("agent/websockets") {
		n++
		for _, call := range Calls(fn, "net/http.MaxBytesReader", "io.LimitReader", "io.CopyN", "io.ReadFull", "io.ReadAtLeast") {
			bad = CalleeName(CallOf(call)) + " in " + FuncName(fn) + " at " + p.Pos(call.Pos())
		}
		EachInstrRaw(fn, func(i ssa.Instruction) {
			if al, ok := i.(*ssa.Alloc); ok && NamedType(al.Type()) == "io.LimitedReader" {
				bad = "an io.LimitedReader in " + FuncName(fn) + " at " + p.Pos(al.Pos())
			}
		})
	}
	c.Check(rule, "shim:request-bodies-read-whole", p, 0, bad == "" && n > 0, fmt.Sprintf("no size cap (MaxBytesReader, LimitReader, …) on what the shim endpoints read (%d functions of agent/websockets inspected)", n), "the websocket shim reads through "+bad+": a batch of client messages larger than the cap is cut, its JSON no longer parses and the whole batch is refused — the messages are lost although the client sent them")
}

// ruleStoredEntityLoadable: a struct that is written to and loaded from the datastore keeps
// every property it has ever been stored with: each field of the pinned definition is still
// there under its own name and is not hidden from (or renamed for) the datastore codec by a
// struct tag. Entities written by the deployed version carry those properties; a field the
// codec no longer finds makes Get/GetAll fail with ErrFieldMismatch for every such entity.
func ruleStoredEntityLoadable(c *Ctx, p *Prog, rule string, entities ...string) {
	pn := pinnedTable()
	for _, ent := range entities {
		k := strings.LastIndex(ent, ".")
		rel, name := ent[:k], ent[k+1:]
		key := "entity:" + ent + ":stored-properties-still-load"
		pk := p.ModPkgs[ModPath+"/"+rel]
		if pk == nil || pn.Pkgs == nil || pn.Pkgs[rel] == nil {
			c.Unk(rule, key, p, 0, "package "+rel+" not loaded")
			continue
		}
		fp, ok := pn.Pkgs[rel].Types[name]
		if !ok {
			c.Unk(rule, key, p, 0, "no pinned definition of "+ent)
			continue
		}
		var st *types.Struct
		var pos token.Pos
		for _, n := range pk.Types.Scope().Names() {
			if tn, isT := pk.Types.Scope().Lookup(n).(*types.TypeName); isT && objName(tn) == name {
				st, _ = tn.Type().Underlying().(*types.Struct)
				pos = tn.Pos()
			}
		}
		if st == nil {
			c.Unk(rule, key, p, 0, "type "+ent+" not found (renamed or removed)")
			continue
		}
		bad := ""
		for _, f := range fp.Fields {
			fname := f[:strings.Index(f, " ")]
			found := false
			for i := 0; i < st.NumFields(); i++ {
				if st.Field(i).Name() != fname {
					continue
				}
				found = true
				tag := reflect.StructTag(st.Tag(i)).Get("datastore")
				prop := tag
				if j := strings.Index(tag, ","); j >= 0 {
					prop = tag[:j]
				}
				if prop == "-" || (prop != "" && prop != fname) {
					bad = fmt.Sprintf("field %s carries the tag datastore:%q", fname, tag)
				}
			}
			if !found {
				bad = "field " + fname + " no longer exists under that name"
			}
		}
		c.Check(rule, key, p, pos, bad == "", fmt.Sprintf("all %d properties entities of type %s were ever stored with are still fields the datastore codec loads", len(fp.Fields), ent), ent+": "+bad+": entities written before this change still carry that property, so loading any of them fails with ErrFieldMismatch — a query over the backends of a user then fails as a whole and every request of that user is answered 404")
	}
}

// ruleSizesFromOutsideAreSane: size arguments that panic when they are out of range are in
// range wherever they are computed from values that come from outside (request metadata,
// header values, parsed numbers): bytes.Buffer.Grow / strings.Builder.Grow need n >= 0
// (r.ContentLength is -1 for chunked bodies), rand.Int63n/Intn/Int31n need n > 0 (a delay of
// 0 seconds times a jitter fraction). A panic in a request goroutine nothing recovers ends the
// agent.
func ruleSizesFromOutsideAreSane(c *Ctx, p *Prog, rule string, pkgs ...string) {
	bad := ""
	n := 0
	for _, pk := range pkgs {
		for _, fn := range p.AllFuncsIn(pk) {
			EachInstrRaw(fn, func(i ssa.Instruction) {
				cc := CallOf(i)
				if cc == nil {
					return
				}
				var arg ssa.Value
				min := int64(0)
				switch CalleeName(cc) {
				case "(*bytes.Buffer).Grow", "(*strings.Builder).Grow":
					arg = PArgs(cc)[1]
				case "math/rand.Int63n", "math/rand.Intn", "math/rand.Int31n", "math/rand/v2.IntN", "math/rand/v2.Int64N":
					arg, min = PArgs(cc)[0], 1
				case "(*math/rand.Rand).Int63n", "(*math/rand.Rand).Intn", "(*math/rand.Rand).Int31n":
					arg, min = PArgs(cc)[1], 1
				default:
					return
				}
				n++
				if k, isC := ConstInt(arg); isC {
					if k < min {
						bad = fmt.Sprintf("%s(%d) in %s at %s", CalleeName(cc), k, FuncName(fn), p.Pos(i.Pos()))
					}
					return
				}
				// only values that come from outside the function can be out of range: a size
				// estimate summed from len() results and constants cannot be negative
				external := false
				SliceBack(arg, func(v ssa.Value) bool {
					switch y := v.(type) {
					case *ssa.Parameter, *ssa.FreeVar:
						if b, isB := y.Type().Underlying().(*types.Basic); isB && b.Info()&types.IsNumeric != 0 {
							external = true
						}
					case *ssa.Call:
						if b, isBI := y.Call.Value.(*ssa.Builtin); isBI && b.Name() == "len" {
							return false
						}
						switch CalleeName(y.Common()) {
						case "strconv.Atoi", "strconv.ParseInt", "strconv.ParseUint", "strconv.ParseFloat":
							external = true
						}
					case *ssa.UnOp:
						if _, _, isF := FieldLoad(y); isF {
							if b, isB := y.Type().Underlying().(*types.Basic); isB && b.Info()&types.IsNumeric != 0 {
								external = true
							}
						}
					}
					return true
				})
				if !external {
					return
				}
				it := &interp{p: p, globals: map[string]iv{}}
				win, err := it.evalValue(arg, 0)
				if err == nil && win.kind == 'i' {
					win = it.refineAt(win, arg, i.Block())
				}
				if err != nil || win.kind != 'i' || win.ilo.Cmp(big.NewInt(min)) < 0 {
					bad = fmt.Sprintf("%s(%s) in %s at %s, argument range %s", CalleeName(cc), PathOf(arg), FuncName(fn), p.Pos(i.Pos()), win)
				}
			})
		}
	}
	c.Check(rule, "sizes:arguments-that-panic-are-in-range", p, 0, bad == "", fmt.Sprintf("%d Grow / rand.*n call(s): every argument is provably in range", n), bad+": the call panics for a legal input (a chunked request has ContentLength -1; Retry-After: 0 gives a zero jitter width) in a goroutine nothing recovers — one such request terminates the agent")
}

// ruleNoUnboundedWaitBetweenAttempts: whatever a function waits for between the attempts of a
// call (time.Sleep, time.After, time.NewTimer) is bounded by a constant: a wait taken from a
// peer's header (Retry-After as an HTTP-date) keeps the pipe unread — and the handler that
// writes into it blocked — for as long as the peer says.
func ruleNoUnboundedWaitBetweenAttempts(c *Ctx, p *Prog, rule string, fnName string, limit time.Duration) {
	f := c.need(p, rule, fnName)
	if f == nil {
		return
	}
	bad := ""
	n := 0
	EachInstr(f, func(i ssa.Instruction) {
		cc := CallOf(i)
		if cc == nil {
			return
		}
		switch CalleeName(cc) {
		case "time.Sleep", "time.After", "time.NewTimer", "time.Tick", "time.NewTicker":
		default:
			return
		}
		n++
		arg := PArgs(cc)[0]
		if k, isC := ConstInt(arg); isC {
			if k > int64(limit) {
				bad = fmt.Sprintf("a constant wait of %s at %s", time.Duration(k), p.Pos(i.Pos()))
			}
			return
		}
		win, err := (&interp{p: p, globals: map[string]iv{}}).evalValue(arg, 0)
		if err != nil || win.kind != 'i' || !win.ihi.IsInt64() || win.ihi.Int64() > int64(limit) {
			bad = fmt.Sprintf("a wait of %s (range %s) at %s", PathOf(arg), win, p.Pos(i.Pos()))
		}
	})
	c.Check(rule, ShortName(f)+":waits-between-attempts-are-bounded", p, f.Pos(), bad == "", fmt.Sprintf("%d wait(s) inside %s, each bounded by %s", n, ShortName(f), limit), FuncName(f)+" contains "+bad+" that no constant bounds: while it waits nobody reads the upload pipe, so the serialiser and the backend-facing handler stay blocked for as long as the proxy's header dictates")
}

package ipc

import (
	"fmt"
	"go/token"
	"go/types"
	"sort"
	"strings"

	"golang.org/x/tools/go/ssa"
)

// ResponseWriterImpls returns the named struct types of module packages
// (outside testing/) whose pointer method set has Header, Write and
// WriteHeader with the http.ResponseWriter signatures, declared in source.
func ResponseWriterImpls(p *Prog) []*types.Named {
	var out []*types.Named
	var paths []string
	for ip := range p.ModPkgs {
		paths = append(paths, ip)
	}
	sort.Strings(paths)
	for _, ip := range paths {
		if strings.HasPrefix(Rel(ip), "testing") {
			continue
		}
		scope := p.ModPkgs[ip].Types.Scope()
		for _, name := range scope.Names() {
			tn, ok := scope.Lookup(name).(*types.TypeName)
			if !ok {
				continue
			}
			named, ok := tn.Type().(*types.Named)
			if !ok {
				continue
			}
			if _, isStruct := named.Underlying().(*types.Struct); !isStruct {
				continue
			}
			// full method set (declared and promoted through embedding): the type can stand in for an http.ResponseWriter
			have := map[string]bool{}
			ms := types.NewMethodSet(types.NewPointer(named))
			for i := 0; i < ms.Len(); i++ {
				have[ms.At(i).Obj().Name()] = true
			}
			declared := 0
			for i := 0; i < named.NumMethods(); i++ {
				switch named.Method(i).Name() {
				case "Write", "WriteHeader", "Header":
					declared++
				}
			}
			if have["WriteHeader"] && have["Write"] && have["Header"] && declared > 0 {
				out = append(out, named)
			}
		}
	}
	return out
}

// MethodOf returns the SSA function of the declared method T.name / (*T).name.
func (p *Prog) MethodOf(named *types.Named, name string) *ssa.Function {
	for i := 0; i < named.NumMethods(); i++ {
		m := named.Method(i)
		if m.Name() == name {
			return p.SSA.FuncValue(m)
		}
	}
	return nil
}

// rulePublishedMaps — C03.P / C07.P.
// For every *http.Response that a module function hands to another goroutine
// (channel send), the map-typed fields Header and Trailer must not alias
// state of the sender that stays reachable from the sender's other methods:
// the value must not originate from a field of the receiver and must not be
// stored into one.
func rulePublishedMaps(c *Ctx, p *Prog, rule string) {
	n := 0
	for _, fn := range p.Funcs {
		if strings.HasPrefix(FuncName(fn), "testing") {
			continue
		}
		for _, op := range ChanOpsOf(fn) {
			if op.Kind != "send" || op.Val == nil {
				continue
			}
			if NamedType(op.Val.Type()) != "net/http.Response" {
				continue
			}
			rs := Roots(op.Val)
			alloc, ok := rs[0].(*ssa.Alloc)
			if len(rs) != 1 || !ok || alloc.Parent() != fn {
				// forwarding a response received elsewhere (server side relays what it parsed): not a fresh publication
				continue
			}
			var recv ssa.Value
			if fn.Signature.Recv() != nil && len(fn.Params) > 0 {
				recv = fn.Params[0]
			}
			for _, field := range []string{"Header", "Trailer"} {
				n++
				key := fmt.Sprintf("%s publishes Response.%s", FuncName(fn), field)
				v, ok := LiteralField(alloc, field)
				if !ok {
					c.OK(rule, key, p, alloc.Pos(), "field not set in the published response")
					continue
				}
				bad := ""
				for _, r := range Roots(v) {
					if base, f, ok := FieldLoad(r); ok && recv != nil && rootIs(base, recv) {
						bad = "it is loaded from the sender's field " + f
					}
					// one interprocedural step: an accessor of the sender (w.Header()) that returns one of its fields
					if call, ok := r.(*ssa.Call); ok && recv != nil {
						if g := StaticFunc(call.Common()); g != nil && len(g.Blocks) > 0 && len(call.Call.Args) > 0 && rootIs(call.Call.Args[0], recv) {
							for _, ret := range Returns(g) {
								if len(ret.Results) == 0 {
									continue
								}
								for _, rr := range Roots(ReturnValue(ret, 0)) {
									if b2, f2, ok := FieldLoad(rr); ok && len(g.Params) > 0 && rootIs(b2, g.Params[0]) {
										bad = "it is the sender's field " + f2 + " returned by its accessor " + g.Name() + "()"
									}
								}
							}
						}
					}
				}
				if bad == "" && recv != nil {
					EachInstr(fn, func(i ssa.Instruction) {
						if st, ok := i.(*ssa.Store); ok {
							if base, f, ok := FieldAddrOf(st.Addr); ok && rootIs(base, recv) && SameValue(st.Val, v) {
								bad = "the same map is stored into the sender's field " + f
							}
						}
					})
				}
				if bad != "" {
					c.Bad(rule, key, p, op.Instr.Pos(), "the "+field+" map of the response sent to another goroutine is shared with the sender: "+bad+"; the receiving goroutine iterates it inside Response.Write while the handler goroutine keeps mutating it via Header()/Close() (data race; fatal 'concurrent map iteration and map write' for 1-byte first writes)")
				} else {
					c.OK(rule, key, p, op.Instr.Pos(), "the published "+field+" map ("+PathOf(v)+") is private to the response")
				}
			}
		}
	}
	if n == 0 {
		c.Unk(rule, "publication-sites", p, 0, "no function publishes a freshly built *http.Response on a channel: the streaming writer was rewritten into a shape this rule cannot read")
	}
}

func rootIs(v, want ssa.Value) bool {
	rs := Roots(v)
	return len(rs) == 1 && rs[0] == want
}

// shimChan describes one channel of the websocket shim connection.
type shimChan struct {
	Field string
	Mk    *ssa.MakeChan
	Ops   []ChanOp
}

// shimChannels gathers the operations on the channel-typed fields of
// agent/websockets.Connection, unifying the locals of NewConnection with the
// fields they are stored into.
func shimChannels(c *Ctx, p *Prog, rule string) []*shimChan {
	nc := c.need(p, rule, "agent/websockets.NewConnection")
	if nc == nil {
		return nil
	}
	as := AllocsOf(nc, "agent/websockets.Connection")
	if len(as) != 1 {
		c.Unk(rule, "NewConnection:literal", p, nc.Pos(), fmt.Sprintf("expected one Connection literal in NewConnection, found %d", len(as)))
		return nil
	}
	st := as[0].Type().Underlying().(*types.Pointer).Elem().Underlying().(*types.Struct)
	var out []*shimChan
	fns := p.FuncsIn("agent/websockets")
	for i := 0; i < st.NumFields(); i++ {
		f := st.Field(i)
		if _, ok := f.Type().Underlying().(*types.Chan); !ok {
			continue
		}
		sc := &shimChan{Field: f.Name()}
		if v, ok := LiteralField(as[0], f.Name()); ok {
			if rs := Roots(v); len(rs) == 1 {
				sc.Mk, _ = rs[0].(*ssa.MakeChan)
			}
		}
		if sc.Mk == nil {
			c.Unk(rule, "Connection."+f.Name()+":creation", p, as[0].Pos(), "channel field is not initialised from a make(chan) in NewConnection")
		}
		for _, fn := range fns {
			for _, op := range ChanOpsOf(fn) {
				for _, r := range Roots(op.Chan) {
					if r == ssa.Value(sc.Mk) && sc.Mk != nil {
						sc.Ops = append(sc.Ops, op)
						break
					}
					if base, fld, ok := FieldLoad(r); ok && fld == f.Name() && NamedTypeRel(base.Type()) == "agent/websockets.Connection" {
						sc.Ops = append(sc.Ops, op)
						break
					}
				}
			}
		}
		out = append(out, sc)
	}
	return out
}

// goBodyOnce: fn is the body of a go statement that occurs exactly once, outside any loop.
func goBodyOnce(fn *ssa.Function) bool {
	par := fn.Parent()
	if par == nil {
		return false
	}
	n := 0
	ok := true
	for _, f := range WithClosures(par) {
		EachInstr(f, func(i ssa.Instruction) {
			if g, isGo := i.(*ssa.Go); isGo && StaticFunc(&g.Call) == fn {
				n++
				if InLoop(i.Block()) {
					ok = false
				}
			}
		})
	}
	return n == 1 && ok
}

// onceBody: fn is passed to (*sync.Once).Do.
func onceBody(fn *ssa.Function) bool {
	par := fn.Parent()
	if par == nil {
		return false
	}
	found := false
	EachInstr(par, func(i ssa.Instruction) {
		if IsCall(i, "(*sync.Once).Do") {
			if mc, ok := CallOf(i).Args[1].(*ssa.MakeClosure); ok && mc.Fn == fn {
				found = true
			}
		}
	})
	return found
}

// isDoneChan: v is the result of conn.done() / ctx.Done().
func isDoneChan(v ssa.Value) bool {
	for _, r := range Roots(v) {
		call, ok := r.(*ssa.Call)
		if !ok {
			return false
		}
		if call.Call.IsInvoke() {
			if call.Call.Method.FullName() != "(context.Context).Done" {
				return false
			}
			continue
		}
		if _, f, ok := FieldLoad(call.Call.Value); ok && f == "done" {
			continue
		}
		return false
	}
	return true
}

// ruleShimChannels — C12.C (typestate) and C12.B (no unguarded blocking send
// in code that endpoint handlers call).
func ruleShimChannels(c *Ctx, p *Prog, ruleC, ruleB string) {
	chans := shimChannels(c, p, ruleC)
	for _, sc := range chans {
		var sends, closes []ChanOp
		for _, op := range sc.Ops {
			switch op.Kind {
			case "send":
				sends = append(sends, op)
			case "close":
				closes = append(closes, op)
			}
		}
		key := "Connection." + sc.Field + ":close-discipline"
		switch {
		case len(closes) == 0:
			c.OK(ruleC, key, p, posOfOps(sc.Ops), fmt.Sprintf("never closed (%d send site(s)): no send-on-closed / double-close possible", len(sends)))
		default:
			reason := ""
			fn0 := closes[0].Fn
			for _, cl := range closes {
				if cl.Fn != fn0 {
					reason = "closed from more than one function"
				}
				if InLoop(cl.Instr.Block()) {
					reason = "closed inside a loop"
				}
			}
			if len(closes) > 1 {
				reason = fmt.Sprintf("%d close sites", len(closes))
			}
			if reason == "" {
				if len(sends) == 0 {
					if !(onceBody(fn0) || goBodyOnce(fn0)) {
						reason = "the close site in " + FuncName(fn0) + " is neither the body of a sync.Once nor of a goroutine started once per connection: two callers can close twice (panic: close of closed channel)"
					}
				} else {
					for _, s := range sends {
						if s.Fn != fn0 {
							reason = "sent on in " + FuncName(s.Fn) + " but closed in " + FuncName(fn0) + ": a concurrent sender panics with 'send on closed channel'"
						}
					}
					if reason == "" && !goBodyOnce(fn0) {
						reason = "sender/closer " + FuncName(fn0) + " is not a goroutine started exactly once per connection"
					}
				}
			}
			c.Check(ruleC, key, p, closes[0].Instr.Pos(), reason == "", "sole-sender-closes / once-closed discipline holds", "channel "+sc.Field+": "+reason+" — the shim handlers run in the agent's own worker goroutines (no recover), so the panic kills the agent")
		}
		// blocking sends in non-goroutine code
		for k, s := range sends {
			fn := s.Fn
			if goBodyOnce(fn) {
				continue // the connection's own reader goroutine; it does not answer HTTP calls
			}
			bkey := fmt.Sprintf("Connection.%s:send#%d in %s", sc.Field, k+1, FuncName(fn))
			ok := false
			why := "plain blocking send"
			if s.InSelect {
				why = "select without an arm on the connection's done channel"
				if s.HasDefault {
					ok = true
					why = "non-blocking select"
				}
				for st := range s.Select.States {
					if st != s.State && s.Select.States[st].Dir == types.RecvOnly && isDoneChan(s.Select.States[st].Chan) {
						ok = true
					}
				}
			}
			c.Check(ruleB, bkey, p, s.Instr.Pos(), ok, "the send is a select arm next to the connection's done channel", "send on "+sc.Field+" in "+FuncName(fn)+" is a "+why+": once the writer goroutine has exited and the queue is full the calling shim endpoint never answers")
		}
	}
	if len(chans) < 2 {
		c.Unk(ruleC, "Connection:channels", p, 0, fmt.Sprintf("found %d channel fields in websockets.Connection (expected ≥2)", len(chans)))
	}
}

func posOfOps(ops []ChanOp) token.Pos {
	if len(ops) > 0 {
		return ops[0].Instr.Pos()
	}
	return 0
}

// ruleShimNilMessages: for each channel of the shim connection on which a
// nil pointer may be sent (some send value has a nil root), every
// dereference of a received value in the receiving code must be guarded by a
// nil test of that value. The goroutines of a connection run outside any
// recover, so a nil dereference there kills the agent.
func ruleShimNilMessages(c *Ctx, p *Prog, rule string) {
	for _, sc := range shimChannels(c, p, rule) {
		mayNil := ""
		for _, op := range sc.Ops {
			if op.Kind != "send" || op.Val == nil {
				continue
			}
			if _, isPtr := op.Val.Type().Underlying().(*types.Pointer); !isPtr {
				continue
			}
			for _, r := range Roots(op.Val) {
				if IsNilConst(r) {
					mayNil = FuncName(op.Fn) + " at " + p.Pos(op.Instr.Pos())
				}
			}
		}
		key := "Connection." + sc.Field + ":nil-safe-receivers"
		if mayNil == "" {
			c.OK(rule, key, p, posOfOps(sc.Ops), "no send site can send a nil pointer")
			continue
		}
		bad := ""
		nrecv := 0
		for _, op := range sc.Ops {
			if op.Kind != "recv" || op.Val == nil {
				continue
			}
			nrecv++
			for _, u := range Refs(op.Val) {
				deref := false
				switch x := u.(type) {
				case *ssa.FieldAddr:
					deref = x.X == op.Val
				case *ssa.UnOp:
					deref = x.Op == token.MUL && x.X == op.Val
				case *ssa.Call:
					// method call with the value as receiver of a pointer method that derefs: treat as deref
					if len(x.Call.Args) > 0 && x.Call.Args[0] == op.Val && x.Call.Signature().Recv() != nil {
						deref = true
					}
				}
				if !deref {
					continue
				}
				guarded := false
				for _, g := range GuardingIfs(u) {
					bo, ok := g.If.Cond.(*ssa.BinOp)
					if !ok {
						continue
					}
					var other ssa.Value
					if bo.X == op.Val {
						other = bo.Y
					} else if bo.Y == op.Val {
						other = bo.X
					}
					if other == nil || !IsNilConst(other) {
						continue
					}
					if bo.Op == token.NEQ && g.Succ == 0 || bo.Op == token.EQL && g.Succ == 1 {
						guarded = true
					}
				}
				if !guarded {
					bad = fmt.Sprintf("%s dereferences the received message at %s without a nil test", FuncName(op.Fn), p.Pos(u.Pos()))
				}
			}
		}
		c.Check(rule, key, p, posOfOps(sc.Ops), bad == "", fmt.Sprintf("a nil message can be sent (%s); all %d receive site(s) test for nil before dereferencing", mayNil, nrecv), "a nil message can be sent on "+sc.Field+" ("+mayNil+": e.g. shim data [[42]] or [null]) and "+bad+": nil-pointer panic in a goroutine without recover kills the agent")
	}
}

// ruleShimSessionIDs: the key under which the open handler stores a new
// connection in the session table is produced by an atomic
// fetch-and-increment (atomic.AddUint64) — a unique value per open call —
// and is the same value that is reported to the client.
func ruleShimSessionIDs(c *Ctx, p *Prog, rule string) {
	se := resolveShimEndpoints(c, p, rule)
	if se == nil || se.Inner == nil {
		return
	}
	in := se.Inner
	st := c.UniqueCall(rule, p, in, false, "(*sync.Map).Store")
	if st == nil {
		return
	}
	key := Args(CallOf(st))[1]
	fromAdd, fromLoad := false, false
	SliceBack(key, func(v ssa.Value) bool {
		if call, ok := v.(*ssa.Call); ok {
			switch CalleeName(call.Common()) {
			case "sync/atomic.AddUint64", "sync/atomic.AddInt64", "sync/atomic.AddUint32", "sync/atomic.AddInt32", "(*sync/atomic.Uint64).Add", "(*sync/atomic.Int64).Add":
				fromAdd = true
			case "sync/atomic.LoadUint64", "sync/atomic.LoadInt64", "(*sync/atomic.Uint64).Load", "(*sync/atomic.Int64).Load":
				fromLoad = true
			case "github.com/google/uuid.New", "github.com/google/uuid.NewRandom":
				fromAdd = true
			}
		}
		return true
	})
	c.Check(rule, "open:session-id-is-unique", p, st.Pos(), fromAdd && !fromLoad, "the session-table key derives from an atomic fetch-and-increment of the session counter: no two open calls get the same ID", "the session ID stored in the table does not derive (only) from an atomic increment of the session counter (increment: "+fmt.Sprint(fromAdd)+", plain load: "+fmt.Sprint(fromLoad)+"): two overlapping open calls can be given the same ID, the second connection replaces the first in the table and each client then polls/sends on the other's websocket")
	// the ID reported to the client is the stored key
	as := AllocsOf(in, "agent/websockets.sessionMessage")
	ok := false
	for _, a := range as {
		if v, has := LiteralField(a, "ID"); has {
			// key is MakeInterface(string id)
			if SameValue(v, key) {
				ok = true
			}
		}
	}
	c.Check(rule, "open:reported-id-is-stored-key", p, st.Pos(), ok, "the ID returned to the client is the key the connection is stored under", "the session ID returned to the client is not the key under which the connection was stored")
}

package ipc

import (
	"fmt"
	"go/token"
	"go/types"
	"strings"

	"golang.org/x/tools/go/ssa"
)

// Header-name constants of agent/utils (resolved, then compared by value).
const (
	hdrBackendID = "X-Inverting-Proxy-Backend-ID"
	hdrRequestID = "X-Inverting-Proxy-Request-ID"
	hdrUserID    = "X-Inverting-Proxy-User-ID"
)

func init() {
	register(&PropSpec{
		ID:    "C01",
		Progs: []string{"mod"},
		Explanation: "Decides the structural facts response/request correlation rests on, for every schedule and every number of clients at once: " +
			"(L) the pending-request table and the request-ID generator of the stand-alone proxy are only touched under the proxy mutex (lockset, all accesses); " +
			"(K) the ID that keys the table is the very value that is enqueued and the response copied to a client is the one received on that client's own rendezvous channel; " +
			"(W) the agent-facing endpoints look the waiter up by the request ID header of their own call and hand it the response parsed from their own body; " +
			"(R) the rendezvous channel is unbuffered, created once per client activation, received from at one site outside any loop; " +
			"(A) the request/backend IDs travel unchanged, in the right parameter roles, from the pending list to the upload headers. " +
			"Not decided: interleavings inside net/http, collision probability of the 256-bit IDs, byte identity of the relayed payloads. " +
			"(M) no long-lived closure (handler, ModifyResponse hook) writes into byte storage captured from its creator, no package-level byte buffer is written, no sync.Pool traffic, and goroutines started in loops capture only per-iteration variables — a shared scratch buffer or loop variable hands one client another client's bytes; (C) the App Engine proxy's GET response cache is looked up and stored under one key that is fmt.Sprintf with both components (user e-mail, full URL) rendered by %q and never shortened, only for GET. " +
			"(S, second part) the session counter is modified by exactly one positive constant increment; (B) App Engine blob parts are recorded in loop order under the names they are stored with and read back with one ordered GetMulti. " +
			"(G) request IDs keep the generator's full width (hex of the whole digest); (S) shim session IDs are unique; (F) the agent and the stand-alone proxy force chunked framing, so a stale Content-Length cannot cut one response into the next; (X) an interim 1xx never latches a ResponseWriter and a superseded upload attempt cannot take bytes of the retry (shared with C03.X and C06.X).",
		Assumptions: []string{
			"net/http server/transport do not mix bodies of different connections",
			"sha256 of a 63-bit draw is collision-free for distinct draws (IDs are distinct iff draws are distinct)",
			"races outside the guarded table are the race detector's domain",
		},
		Run: runC01,
	})
}

var c01Guards = []*Guard{
	{Type: "server.proxy", Field: "requests", Lock: "server.proxy.Mutex", Why: `comment "protects the map below"; map written by every client activation and read by every agent call`},
	{Type: "server.proxy", Field: "randGenerator", Lock: "server.proxy.Mutex", Why: "*math/rand.Rand from rand.New is documented as not safe for concurrent use; drawn from by every concurrent ServeHTTP via newID; a racy draw can repeat a value => two clients share one ID and one table slot"},
}

// checkGuards runs the lockset rule for a guard table.
func checkGuards(c *Ctx, p *Prog, rule string, guards []*Guard) {
	ls := ComputeLocksets(p)
	for _, g := range guards {
		accs := GuardedAccesses(p, g)
		if len(accs) == 0 {
			c.Unk(rule, fmt.Sprintf("guard:%s.%s", g.Type, g.Field), p, 0, "guarded state "+g.Type+"."+g.Field+" has no access in the program (renamed or removed)")
			continue
		}
		// one obligation per (function, guarded field)
		perFn := map[*ssa.Function][]Access{}
		var order []*ssa.Function
		for _, a := range accs {
			if _, ok := perFn[a.Fn]; !ok {
				order = append(order, a.Fn)
			}
			perFn[a.Fn] = append(perFn[a.Fn], a)
		}
		for _, fn := range order {
			name := g.Type + "." + g.Field
			if g.Type == "" {
				name = g.Field
			}
			key := fmt.Sprintf("%s in %s", name, FuncName(fn))
			if why, ok := g.Exempt[FuncName(fn)]; ok {
				c.OK(rule, key, p, fn.Pos(), "exempt: "+why)
				continue
			}
			bad := false
			for _, a := range perFn[fn] {
				held := ls.Held(a.Instr)
				if atomicFieldAccess(a.Instr) {
					continue // the field became a sync/atomic value that is only used through its methods
				}
				if !held[g.Lock] && !(held[g.Lock+"(R)"] && readOnlyAccess(a.Instr)) {
					c.Bad(rule, key, p, a.Instr.Pos(), fmt.Sprintf("%s (%s) without %s held (held: %s); %s", a.What, a.Instr.String(), g.Lock, ls.Held(a.Instr), g.Why))
					bad = true
					break
				}
			}
			if !bad {
				c.OK(rule, key, p, fn.Pos(), fmt.Sprintf("all %d access instruction(s) hold %s", len(perFn[fn]), g.Lock))
			}
		}
	}
}

func runC01(c *Ctx) {
	p := c.Progs["mod"]
	c.Rule("C01.Y", "compatibility with the party that is not changed with this code: stored and cached responses written by the deployed build are still recognised as responses", 1)
	ruleNewWireFieldNotDecisive(c, p, "C01.Y", "a response stored or cached by an instance of the deployed build (the agent service is deployed separately) carries the zero value there: the waiting client is not handed the response the backend produced for it", "app/types.Response", "app/store.storedResponse")

	// ---- C01.L
	c.Rule("C01.L", "lockset: every access to proxy.requests and proxy.randGenerator outside the constructor holds proxy.Mutex", 3)
	checkGuards(c, p, "C01.L", c01Guards)

	// ---- C01.K
	c.Rule("C01.K", "key identity in the client-facing ServeHTTP: table key = enqueued ID = newID() result; response copied is the one received on this activation's channel", 9)
	if sv := c.need(p, "C01.K", "server.(*proxy).ServeHTTP"); sv != nil {
		newID := c.UniqueCall("C01.K", p, sv, false, "(*"+ModPath+"/server.proxy).newID")
		npr := c.UniqueCall("C01.K", p, sv, false, ModPath+"/server.newPendingRequest")
		if newID != nil && npr != nil {
			idv := newID.(ssa.Value)
			pend := npr.(ssa.Value)
			// map updates on p.requests
			n := 0
			EachInstr(sv, func(i ssa.Instruction) {
				mu, ok := i.(*ssa.MapUpdate)
				if !ok {
					return
				}
				if PathOf(mu.Map) != P(sv, 0)+".requests" {
					return
				}
				n++
				c.Check("C01.K", "ServeHTTP:table-key", p, i.Pos(), SameValue(mu.Key, idv), "the table key is the newID() result", "the pending table is keyed by "+PathOf(mu.Key)+", not by the newID() result")
				c.Check("C01.K", "ServeHTTP:table-value", p, i.Pos(), SameValue(mu.Value, pend), "the table value is this activation's pendingRequest", "the table value is "+PathOf(mu.Value)+", not this activation's newPendingRequest(r)")
			})
			if n != 1 {
				c.Unk("C01.K", "ServeHTTP:table-update-count", p, sv.Pos(), fmt.Sprintf("expected exactly one update of p.requests in ServeHTTP, found %d", n))
			}
			c.ArgIs("C01.K", "ServeHTTP:pending-wraps-own-request", p, npr, 0, "newPendingRequest receives this activation's request", P(sv, 2))
			// enqueue
			sends := 0
			for _, op := range ChanFieldOps([]*ssa.Function{sv}, "server.proxy", "requestIDs") {
				if op.Kind == "send" {
					sends++
					c.Check("C01.K", "ServeHTTP:enqueued-id", p, op.Instr.Pos(), SameValue(op.Val, idv), "the ID offered to pollers is the newID() result that keys the table", "the value offered on requestIDs is "+PathOf(op.Val)+", not the table key")
				}
			}
			if sends != 1 {
				c.Unk("C01.K", "ServeHTTP:enqueue-count", p, sv.Pos(), fmt.Sprintf("expected exactly one send on requestIDs in ServeHTTP, found %d", sends))
			}
			// receive of the response and copy-out
			var recvd ssa.Value
			for _, op := range ChanFieldOps([]*ssa.Function{sv}, "server.pendingRequest", "respChan") {
				if op.Kind == "recv" {
					base, _, _ := FieldLoad(Roots(op.Chan)[0])
					c.Check("C01.K", "ServeHTTP:recv-own-channel", p, op.Instr.Pos(), SameValue(base, pend), "the response is received on this activation's own rendezvous channel", "the response is received on the channel of "+PathOf(base))
					recvd = op.Val
				}
			}
			if recvd == nil {
				c.Unk("C01.K", "ServeHTTP:recv-own-channel", p, sv.Pos(), "no receive from pendingRequest.respChan found in ServeHTTP")
			} else {
				rp := PathOf(recvd)
				if wh := c.UniqueCall("C01.K", p, sv, false, "(net/http.ResponseWriter).WriteHeader"); wh != nil {
					c.ArgIs("C01.K", "ServeHTTP:status-from-received", p, wh, 1, "status written to the client", rp+".StatusCode")
					c.ArgIs("C01.K", "ServeHTTP:status-to-own-writer", p, wh, 0, "status written to this activation's writer", P(sv, 1))
				}
				if cp := c.UniqueCall("C01.K", p, sv, false, "io.Copy"); cp != nil {
					c.ArgIs("C01.K", "ServeHTTP:body-from-received", p, cp, 1, "body copied to the client", rp+".Body")
					c.ArgIs("C01.K", "ServeHTTP:body-to-own-writer", p, cp, 0, "body copied to this activation's writer", P(sv, 1))
				}
			}
		}
	}

	// ---- C01.W
	c.Rule("C01.W", "waiter identity on the agent-facing endpoints of the stand-alone proxy", 10)
	if f := c.need(p, "C01.W", "server.(*proxy).handleAgentPostResponse"); f != nil {
		var look ssa.Value
		EachInstr(f, func(i ssa.Instruction) {
			if lk, ok := i.(*ssa.Lookup); ok && PathOf(lk.X) == P(f, 0)+".requests" {
				c.PathIs("C01.W", "post:lookup-key", p, i.Pos(), lk.Index, "waiter looked up by this call's request ID", P(f, 3))
				look = lk
			}
		})
		if look == nil {
			c.Unk("C01.W", "post:lookup-key", p, f.Pos(), "no lookup in p.requests found")
		}
		pend := P(f, 0) + ".requests[" + P(f, 3) + "]"
		if rr := c.UniqueCall("C01.W", p, f, false, "net/http.ReadResponse"); rr != nil {
			c.ArgIs("C01.W", "post:parsed-against-own-request", p, rr, 1, "response parsed against the waiter's request", pend+".req")
			br := Args(CallOf(rr))[0]
			ok := false
			if call := CallResult(br, 0, "bufio.NewReader"); call != nil {
				ok = PathOf(PArgs(&call.Call)[0]) == P(f, 2)+".Body"
			}
			c.Check("C01.W", "post:parsed-from-own-body", p, rr.Pos(), ok, "response parsed from this call's body", "http.ReadResponse does not read bufio.NewReader(r.Body) of this call: "+PathOf(br))
			sends := 0
			for _, op := range ChanFieldOps([]*ssa.Function{f}, "server.pendingRequest", "respChan") {
				if op.Kind != "send" {
					continue
				}
				sends++
				c.PathIs("C01.W", "post:sent-to-own-waiter", p, op.Instr.Pos(), op.Chan, "response handed to the waiter of this request ID", pend+".respChan")
				c.Check("C01.W", "post:sent-value-is-parsed-response", p, op.Instr.Pos(), SameValue(op.Val, rr.(*ssa.Call)) || PathOf(op.Val) == "result0:net/http.ReadResponse", "the value handed over is the response parsed from this call", "the value handed to the waiter is "+PathOf(op.Val))
			}
			if sends != 1 {
				c.Unk("C01.W", "post:send-count", p, f.Pos(), fmt.Sprintf("expected one send on respChan, found %d", sends))
			}
		}
	}
	if f := c.need(p, "C01.W", "server.(*proxy).handleAgentGetRequest"); f != nil {
		found := false
		EachInstr(f, func(i ssa.Instruction) {
			if lk, ok := i.(*ssa.Lookup); ok && PathOf(lk.X) == P(f, 0)+".requests" {
				found = true
				c.PathIs("C01.W", "get:lookup-key", p, i.Pos(), lk.Index, "request looked up by this call's request ID", P(f, 3))
			}
		})
		if !found {
			c.Unk("C01.W", "get:lookup-key", p, f.Pos(), "no lookup in p.requests found")
		}
		if w := c.UniqueCall("C01.W", p, f, false, "(*net/http.Request).Write", "(*net/http.Request).WriteProxy"); w != nil {
			c.ArgIs("C01.W", "get:serialised-request", p, w, 0, "the request serialised to the agent is the one stored under this ID", P(f, 0)+".requests["+P(f, 3)+"].req")
			c.ArgIs("C01.W", "get:serialised-to-own-writer", p, w, 1, "serialised into this call's reply", P(f, 1))
		}
	}
	if f := c.need(p, "C01.W", "server.(*proxy).handleAgentRequest"); f != nil {
		want := `result:(net/http.Header).Get`
		for _, callee := range []string{"handleAgentPostResponse", "handleAgentGetRequest"} {
			for _, call := range Calls(f, "(*"+ModPath+"/server.proxy)."+callee) {
				a := Args(CallOf(call))[3]
				ok := false
				if g := CallResult(a, 0, "(net/http.Header).Get"); g != nil {
					k, _ := ConstString(PArgs(&g.Call)[1])
					ok = PathOf(PArgs(&g.Call)[0]) == P(f, 2)+".Header" && k == hdrRequestID
				}
				c.Check("C01.W", "dispatch:"+callee+":request-id", p, call.Pos(), ok, "request ID taken from this call's "+hdrRequestID+" header", "request ID passed to "+callee+" is "+PathOf(a)+", expected "+want+"(r.Header, "+hdrRequestID+")")
			}
		}
	}

	// ---- C01.R
	c.Rule("C01.R", "rendezvous shape: unbuffered response channel, one per activation, one receive site outside loops", 4)
	serverFns := p.FuncsIn("server")
	if f := c.need(p, "C01.R", "server.newPendingRequest"); f != nil {
		sts := StoresToField(serverFns, "server.pendingRequest", "respChan")
		if len(sts) != 1 {
			c.Unk("C01.R", "respChan:single-creation", p, f.Pos(), fmt.Sprintf("expected one store to pendingRequest.respChan, found %d", len(sts)))
		} else {
			_, size, ok := MakeChanSize(sts[0].Val)
			c.Check("C01.R", "respChan:unbuffered", p, sts[0].Pos(), ok && size == 0, "respChan is make(chan, 0): a response is in exactly one place at a time", fmt.Sprintf("respChan is not an unbuffered make(chan): size=%d const=%v (%s)", size, ok, PathOf(sts[0].Val)))
			c.Check("C01.R", "respChan:created-in-constructor", p, sts[0].Pos(), Owner(sts[0]) == f, "created in newPendingRequest", "respChan is stored outside newPendingRequest: "+FuncName(sts[0].Parent()))
		}
	}
	{
		var calls []ssa.Instruction
		for _, fn := range serverFns {
			calls = append(calls, Calls(fn, ModPath+"/server.newPendingRequest")...)
		}
		ok := len(calls) == 1 && FuncName(Owner(calls[0])) == "server.(*proxy).ServeHTTP" && !InLoop(calls[0].Block())
		c.Check("C01.R", "pending:one-per-activation", p, posOf(calls), ok, "newPendingRequest is called once per ServeHTTP activation, outside any loop", fmt.Sprintf("newPendingRequest call sites: %d (must be exactly one, in ServeHTTP, not in a loop)", len(calls)))
		var recvs []ChanOp
		for _, op := range ChanFieldOps(serverFns, "server.pendingRequest", "respChan") {
			if op.Kind == "recv" {
				recvs = append(recvs, op)
			}
		}
		ok = len(recvs) == 1 && FuncName(recvs[0].Fn) == "server.(*proxy).ServeHTTP" && !InLoop(recvs[0].Instr.Block())
		var pos []ssa.Instruction
		for _, r := range recvs {
			pos = append(pos, r.Instr)
		}
		c.Check("C01.R", "respChan:single-receive", p, posOf(pos), ok, "exactly one receive site, in ServeHTTP, outside any loop: a response object reaches at most one client", fmt.Sprintf("receive sites on respChan: %d (must be exactly one, in ServeHTTP, not in a loop)", len(recvs)))
	}

	// ---- C01.G
	c.Rule("C01.G", "request IDs keep the full width of the generator: hex of the whole SHA-256 of a 63-bit draw", 2)
	ruleNewIDShape(c, p, "C01.G")

	// ---- C01.S
	c.Rule("C01.S", "websocket-shim sessions: unique session IDs (a shared ID hands one client the other's messages)", 2)
	ruleShimSessionIDs(c, p, "C01.S")
	ruleCounterOnlyIncrements(c, p, "C01.S")

	// ---- C01.A
	c.Rule("C01.M", "no response bytes pass through scratch memory shared between activations (captured or package-level buffers, pools, loop variables shared by worker goroutines)", 3)
	ruleSharedScratch(c, p, "C01.M", "agent", "agent/utils", "agent/websockets", "agent/banner", "agent/sessions", "server")
	ruleLoopSharedCapture(c, p, "C01.M", 1, "agent", "agent/utils", "server", "utils/tcpbridge/tcp-bridge-frontend", "utils/tcpbridge/tcp-bridge-backend", "utils/tcpbridge/connection")
	rulePooledMemory(c, p, "C01.M", "agent", "agent/utils", "agent/websockets", "agent/banner", "agent/sessions", "server")
	c.Rule("C01.F", "the agent always serialises responses with chunked framing (a stale Content-Length would truncate or mix bodies) (= C03.C)", 1)
	ruleForcedChunked(c, p, "C01.F")
	c.Rule("C01.X", "each client's own status and body arrive whole: an interim 1xx never latches a writer (= C03.X); a retried upload cannot be raced or robbed by the attempt it supersedes (= C06.X)", 10)
	ruleInterimThenFinal(c, p, "C01.X")
	ruleWriteThrough(c, p, "C01.X")
	if f := p.Func("agent/utils.postResponseWithRetries"); f != nil {
		c06Fence(c, p, "C01.X", f)
	}
	c.Rule("C01.T", "the body is not cut on its way: the shim's splice passes on every byte it read (= C05.M, C14.S); the stand-alone proxy arms no connection deadline (= C04.P); a worker's request does not end with the polling context (= C20.W)", 14)
	ruleNoServerDeadlines(c, p, "C01.T")
	c.Borrow(runC05, "C05.M", "C01.T", func(k string) bool { return strings.HasPrefix(k, "splice:") })
	c.Borrow(runC14, "C14.S", "C01.T", func(k string) bool { return strings.HasPrefix(k, "splice:") })
	c.Borrow(runC20, "C20.W", "C01.T", nil)
	// the stand-alone proxy hands on every value of a repeated response field (= C03.H): folding
	// them into one line merges Set-Cookie fields into a cookie the client cannot parse
	c.Borrow(runC03, "C03.H", "C01.T", func(k string) bool { return strings.HasPrefix(k, "server.(*proxy).ServeHTTP:copy") })
	c.Rule("C01.B", "App Engine store: multi-part bodies are recorded and read back in part order (= C19.K)", 2)
	ruleBlobParts(c, p, "C01.B")
	c.Rule("C01.C", "App Engine proxy: the GET response cache uses one injective key of (user, URL); memcache keys of stored requests/responses are injective in (backend ID, request ID) (= C17.S, C19.S)", 11)
	ruleAppResponseCacheKey(c, p, "C01.C")
	ruleCacheKeysByUse(c, p, "C01.C")
	c.Rule("C01.A", "chain of custody of (backend ID, request ID) through the agent, by parameter role", 35)
	if f := c.need(p, "C01.A", "agent.pollForNewRequests"); f != nil {
		if g := c.UniqueCall("C01.A", p, f, false, ModPath+"/agent.processOneRequest"); g != nil {
			c.ArgIs("C01.A", "poll→worker:requestID", p, g, 3, "worker receives an element of the pending list", "result0:"+ModPath+"/agent/utils.ListPendingRequests[]")
			c.ArgIs("C01.A", "poll→worker:backendID", p, g, 2, "worker receives the agent's backend ID", P(f, 3))
		}
	}
	if f := c.need(p, "C01.A", "agent.processOneRequest"); f != nil {
		if g := c.UniqueCall("C01.A", p, f, false, ModPath+"/agent/utils.ReadRequest"); g != nil {
			c.ArgIs("C01.A", "worker→ReadRequest:backendID", p, g, 2, "backend ID role", P(f, 2))
			c.ArgIs("C01.A", "worker→ReadRequest:requestID", p, g, 3, "request ID role", P(f, 3))
		}
	}
	if f := c.need(p, "C01.A", "agent/utils.ReadRequest"); f != nil {
		if g := c.UniqueCall("C01.A", p, f, false, ModPath+"/agent/utils.getRequestWithRetries"); g != nil {
			c.ArgIs("C01.A", "ReadRequest→fetch:backendID", p, g, 2, "backend ID role", P(f, 2))
			c.ArgIs("C01.A", "ReadRequest→fetch:requestID", p, g, 3, "request ID role", P(f, 3))
		}
		if g := c.UniqueCall("C01.A", p, f, false, ModPath+"/agent/utils.parseRequestFromProxyResponse"); g != nil {
			c.ArgIs("C01.A", "ReadRequest→parse:backendID", p, g, 0, "backend ID role", P(f, 2))
			c.ArgIs("C01.A", "ReadRequest→parse:requestID", p, g, 1, "request ID role", P(f, 3))
			c.ArgIs("C01.A", "ReadRequest→parse:response", p, g, 2, "the reply parsed is the one fetched for this ID", "result0:"+ModPath+"/agent/utils.getRequestWithRetries")
		}
		// callback(client, fr)
		n := 0
		EachInstr(f, func(i ssa.Instruction) {
			cc := CallOf(i)
			if cc == nil || cc.IsInvoke() {
				return
			}
			if PathOf(cc.Value) == P(f, 4) {
				n++
				c.ArgIs("C01.A", "ReadRequest→callback:request", p, i, 1, "callback receives the request parsed for this ID", "result0:"+ModPath+"/agent/utils.parseRequestFromProxyResponse")
			}
		})
		if n != 1 {
			c.Unk("C01.A", "ReadRequest→callback:request", p, f.Pos(), fmt.Sprintf("expected exactly one invocation of the callback, found %d", n))
		}
	}
	headerRole := func(fnName, tag string, setters []string, wantIdx map[string]int, reqFrom string) {
		f := c.need(p, "C01.A", fnName)
		if f == nil {
			return
		}
		wantHdr := map[string]string{}
		for k, i := range wantIdx {
			wantHdr[k] = P(f, i)
		}
		seen := map[string]bool{}
		for _, call := range Calls(f, setters...) {
			args := Args(CallOf(call))
			k, ok := ConstString(args[1])
			if !ok {
				continue
			}
			want, mine := wantHdr[k]
			if !mine {
				continue
			}
			seen[k] = true
			c.ArgIs("C01.A", tag+":"+k, p, call, 2, "value of header "+k, want)
			c.ArgIs("C01.A", tag+":"+k+":on-outgoing-request", p, call, 0, "header set on the request that is sent", reqFrom+".Header")
		}
		for k := range wantHdr {
			if !seen[k] {
				c.Bad("C01.A", tag+":"+k, p, f.Pos(), "header "+k+" is not set on the outgoing request in "+fnName)
			}
		}
		for _, d := range Calls(f, "(*net/http.Client).Do") {
			c.PathIs("C01.A", tag+":sent-request", p, d.Pos(), ThroughClone(Args(CallOf(d))[1]), "the request sent is (a Clone/WithContext copy of) the one carrying the ID headers", reqFrom)
		}
	}
	hs := []string{"(net/http.Header).Add", "(net/http.Header).Set"}
	headerRole("agent/utils.getRequestWithRetries", "fetch-headers", hs, map[string]int{hdrBackendID: 2, hdrRequestID: 3}, "result0:net/http.NewRequest")
	headerRole("agent/utils.postResponseWithRetries", "upload-headers", hs, map[string]int{hdrBackendID: 2, hdrRequestID: 3}, "result0:net/http.NewRequest")
	if f := c.need(p, "C01.A", "agent/utils.parseRequestFromProxyResponse"); f != nil {
		as := AllocsOf(f, "agent/utils.ForwardedRequest")
		if len(as) != 1 {
			c.Unk("C01.A", "parse:literal", p, f.Pos(), fmt.Sprintf("expected one ForwardedRequest literal, found %d", len(as)))
		} else {
			for field, want := range map[string]string{"BackendID": P(f, 0), "RequestID": P(f, 1), "Contents": "result0:net/http.ReadRequest"} {
				v, ok := LiteralField(as[0], field)
				if !ok {
					c.Bad("C01.A", "parse:"+field, p, as[0].Pos(), "ForwardedRequest."+field+" is not set exactly once in the literal")
					continue
				}
				c.PathIs("C01.A", "parse:"+field, p, as[0].Pos(), v, "ForwardedRequest."+field, want)
			}
			if rr := c.UniqueCall("C01.A", p, f, false, "net/http.ReadRequest"); rr != nil {
				ok := false
				if call := CallResult(Args(CallOf(rr))[0], 0, "bufio.NewReader"); call != nil {
					ok = PathOf(PArgs(&call.Call)[0]) == P(f, 2)+".Body"
				}
				c.Check("C01.A", "parse:contents-from-own-reply", p, rr.Pos(), ok, "the embedded request is parsed from the body of this reply", "http.ReadRequest does not read bufio.NewReader(proxyResp.Body)")
			}
		}
	}
	if f := c.need(p, "C01.A", "agent.forwardRequest"); f != nil {
		if g := c.UniqueCall("C01.A", p, f, false, ModPath+"/agent/utils.NewResponseForwarder"); g != nil {
			c.ArgIs("C01.A", "forward→forwarder:backendID", p, g, 2, "backend ID role", P(f, 2)+".BackendID")
			c.ArgIs("C01.A", "forward→forwarder:requestID", p, g, 3, "request ID role", P(f, 2)+".RequestID")
			c.ArgIs("C01.A", "forward→forwarder:request", p, g, 4, "forwarder bound to the request it answers", P(f, 2)+".Contents")
			if sv := c.UniqueCall("C01.A", p, f, false, "(net/http.Handler).ServeHTTP"); sv != nil {
				c.ArgIs("C01.A", "forward:handler-writes-into-own-forwarder", p, sv, 1, "the handler chain writes into the forwarder bound to this request ID", "result0:"+ModPath+"/agent/utils.NewResponseForwarder")
				c.ArgIs("C01.A", "forward:handler-serves-own-request", p, sv, 2, "the handler chain serves the request fetched under this ID", P(f, 2)+".Contents")
			}
		}
	}
	if f := c.need(p, "C01.A", "agent/utils.NewResponseForwarder"); f != nil {
		if g := c.UniqueCall("C01.A", p, f, true, ModPath+"/agent/utils.postResponseWithRetries"); g != nil {
			c.ArgIs("C01.A", "forwarder→upload:backendID", p, g, 2, "backend ID role", P(f, 2))
			c.ArgIs("C01.A", "forwarder→upload:requestID", p, g, 3, "request ID role", P(f, 3))
			c.ArgIs("C01.A", "forwarder→upload:body", p, g, 4, "the uploaded body is the read end of this forwarder's pipe", "result0:io.Pipe")
		}
		if w := c.UniqueCall("C01.A", p, f, true, "(*net/http.Response).Write"); w != nil {
			args := Args(CallOf(w))
			ok := false
			if n := c.UniqueCall("C01.A", p, f, false, ModPath+"/agent/utils.NewStreamingResponseWriter"); n != nil {
				for _, r := range Roots(args[0]) {
					if e, isE := r.(*ssa.Extract); isE {
						if sel, isS := e.Tuple.(*ssa.Select); isS {
							for _, st := range sel.States {
								if SameValue(st.Chan, Args(CallOf(n))[0]) {
									ok = true
								}
							}
						}
					}
					if u, isU := r.(*ssa.UnOp); isU && u.Op == token.ARROW && SameValue(u.X, Args(CallOf(n))[0]) {
						ok = true
					}
				}
			}
			c.Check("C01.A", "forwarder:serialises-own-response", p, w.Pos(), ok && PathOf(args[0]) == "recv(makechan)", "the response serialised is the one received on the channel given to this forwarder's streaming writer", "the response serialised ("+PathOf(args[0])+") is not received from the channel passed to NewStreamingResponseWriter")
			c.PathIs("C01.A", "forwarder:serialises-into-own-pipe", p, w.Pos(), args[1], "serialised into the write end of this forwarder's pipe", "result1:io.Pipe")
		}
		if n := c.UniqueCall("C01.A", p, f, false, ModPath+"/agent/utils.NewStreamingResponseWriter"); n != nil {
			c.ArgIs("C01.A", "forwarder:writer-bound-to-request", p, n, 1, "streaming writer bound to this request", P(f, 4))
		}
	}
}

func posOf(is []ssa.Instruction) token.Pos {
	if len(is) > 0 {
		return is[0].Pos()
	}
	return 0
}

// ruleNewIDShape: request IDs of the stand-alone proxy are the hex of the whole SHA-256 of one
// full-width draw of a generator seeded per process: unique across clients AND across restarts
// of the proxy (agents keep the IDs they have seen across a proxy restart).
func ruleNewIDShape(c *Ctx, p *Prog, rule string) {
	if f := c.need(p, rule, "server.(*proxy).newID"); f != nil {
		rs := Returns(f)
		ok, why := false, "newID does not return fmt.Sprintf(\"%x\", <whole sha256 sum>)"
		if len(rs) == 1 {
			if sp := CallResult(ReturnValue(rs[0], 0), 0, "fmt.Sprintf"); sp != nil {
				format, _ := ConstString(PArgs(&sp.Call)[0])
				whole := false
				SliceBack(PArgs(&sp.Call)[1], func(v ssa.Value) bool {
					if mi, isM := v.(*ssa.MakeInterface); isM {
						if at, isArr := mi.X.Type().Underlying().(*types.Array); isArr && at.Len() == 32 {
							if CallResult(mi.X, 0, "crypto/sha256.Sum256") != nil {
								whole = true
							}
						}
					}
					return true
				})
				ok = format == "%x" && whole
				if !whole {
					why = "the ID is not the hex of the whole 32-byte sha256 sum (a truncated ID makes two clients share a table slot by collision)"
				}
			}
		}
		if len(rs) == 1 && !ok {
			// hex.EncodeToString(sum[:]) of the whole array is the same string as Sprintf("%x", sum)
			if hx := CallResult(ReturnValue(rs[0], 0), 0, "encoding/hex.EncodeToString"); hx != nil {
				if sl, isS := PArgs(&hx.Call)[0].(*ssa.Slice); isS && sl.Low == nil && sl.High == nil {
					if al, isA := sl.X.(*ssa.Alloc); isA {
						if at, isArr := derefT(al.Type()).Underlying().(*types.Array); isArr && at.Len() == 32 {
							n, whole := 0, true
							for _, r := range Refs(al) {
								if st, isSt := r.(*ssa.Store); isSt && st.Addr == ssa.Value(al) {
									n++
									if CallResult(st.Val, 0, "crypto/sha256.Sum256") == nil {
										whole = false
									}
								}
							}
							ok = n == 1 && whole
						}
					}
				}
			}
		}
		c.Check(rule, "newID:full-width", p, f.Pos(), ok, "ID = hex of the whole 32-byte SHA-256 sum", why)
		draws := Calls(f, "(*math/rand.Rand).Int63", "(*math/rand.Rand).Uint64", "(*math/rand.Rand).Int", "crypto/rand.Read", "(*math/rand.Rand).Read")
		small := Calls(f, "(*math/rand.Rand).Intn", "(*math/rand.Rand).Int31", "(*math/rand.Rand).Int31n", "(*math/rand.Rand).Int63n", "(*math/rand.Rand).Uint32", "math/rand.Intn", "math/rand.Int")
		c.Check(rule, "newID:63-bit-draw", p, f.Pos(), len(draws) == 1 && len(small) == 0, "one full-width draw from the proxy's generator per ID", "the ID is no longer derived from one full-width (≥63 bit) draw of the proxy's generator")
	}
}

// atomicFieldAccess: the access takes the address of a field whose type is one of sync/atomic's
// value types (atomic.Pointer[T], atomic.Value, atomic.Int64, …) and uses it only as the receiver
// of that type's methods: such a field synchronises itself.
func atomicFieldAccess(i ssa.Instruction) bool {
	if ci, isCall := i.(ssa.CallInstruction); isCall {
		// the method call on such a field
		if callee := ci.Common().StaticCallee(); callee != nil && callee.Signature.Recv() != nil && len(ci.Common().Args) > 0 {
			if fa, isFA := ci.Common().Args[0].(*ssa.FieldAddr); isFA {
				return atomicFieldAccess(fa)
			}
		}
		return false
	}
	fa, ok := i.(*ssa.FieldAddr)
	if !ok {
		return false
	}
	pt, ok := fa.Type().Underlying().(*types.Pointer)
	if !ok {
		return false
	}
	nm, ok := pt.Elem().(*types.Named)
	if !ok || nm.Obj().Pkg() == nil || nm.Obj().Pkg().Path() != "sync/atomic" {
		return false
	}
	for _, r := range Refs(fa) {
		switch x := r.(type) {
		case *ssa.DebugRef:
		case ssa.CallInstruction:
			cc := x.Common()
			callee := cc.StaticCallee()
			if callee == nil || len(cc.Args) == 0 || cc.Args[0] != ssa.Value(fa) || callee.Signature.Recv() == nil {
				return false
			}
			for _, a := range cc.Args[1:] {
				if a == ssa.Value(fa) {
					return false
				}
			}
		default:
			return false
		}
	}
	return true
}

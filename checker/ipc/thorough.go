package ipc

import (
	"encoding/json"
	"fmt"
	"os"
	"os/exec"
	"path/filepath"
	"regexp"
	"sort"
	"strings"
	"sync"
)

// The thorough tier adds, on top of the quick rules:
//  (a) the same rules under other GOOS/GOARCH configurations;
//  (b) the self-validation corpus: every stored change of /verif/seeded that
//      targets this property is applied to the CURRENT contents of /repo's
//      files as an in-memory overlay (nothing is written into /repo) and must
//      be reported by this property's rules — a corpus entry that applies and
//      is not reported fails the check, because then a pass means nothing;
//  (c) behaviour-preserving refactors of /verif/refactors must stay silent;
//  (d) cross-reference linters (printed into the evidence, never armed).

type corpusEntry struct {
	ID       string
	Dir      string
	Property string   `json:"property"`
	Also     []string `json:"also_detected_by_properties"`
	Needs    string   `json:"needs_to_manifest"`
	Detected string   `json:"detected_by"`
	Refactor bool
}

func loadCorpus(verif, sub string) []corpusEntry {
	var out []corpusEntry
	ents, _ := os.ReadDir(filepath.Join(verif, sub))
	for _, e := range ents {
		if !e.IsDir() {
			continue
		}
		d := filepath.Join(verif, sub, e.Name())
		if _, err := os.Stat(filepath.Join(d, "patch.diff")); err != nil {
			continue
		}
		ce := corpusEntry{ID: e.Name(), Dir: d, Refactor: sub == "refactors"}
		if b, err := os.ReadFile(filepath.Join(d, "meta.json")); err == nil {
			json.Unmarshal(b, &ce)
		}
		out = append(out, ce)
	}
	sort.Slice(out, func(i, j int) bool { return out[i].ID < out[j].ID })
	return out
}

var diffFileRe = regexp.MustCompile(`(?m)^\+\+\+ [ab]/(\S+)`)

// overlayFor applies patch.diff to copies of the touched files of repo in a
// scratch directory and returns the overlay (absolute repo path -> contents).
func overlayFor(repo, patch string) (map[string][]byte, error) {
	pb, err := os.ReadFile(patch)
	if err != nil {
		return nil, err
	}
	tmp, err := os.MkdirTemp("", "ipcheck-overlay-")
	if err != nil {
		return nil, err
	}
	defer os.RemoveAll(tmp)
	var files []string
	for _, m := range diffFileRe.FindAllStringSubmatch(string(pb), -1) {
		files = append(files, m[1])
	}
	if len(files) == 0 {
		return nil, fmt.Errorf("no files in patch")
	}
	for _, f := range files {
		src := filepath.Join(repo, f)
		dst := filepath.Join(tmp, f)
		os.MkdirAll(filepath.Dir(dst), 0o755)
		if b, err := os.ReadFile(src); err == nil {
			os.WriteFile(dst, b, 0o644)
		}
	}
	cmd := exec.Command("git", "apply", "--whitespace=nowarn", patch)
	cmd.Dir = tmp
	cmd.Env = append(os.Environ(), "GIT_CEILING_DIRECTORIES="+filepath.Dir(tmp), "GIT_DIR=/nonexistent")
	if outb, err := cmd.CombinedOutput(); err != nil {
		// fall back to patch(1) with fuzz
		cmd2 := exec.Command("patch", "-p1", "-s", "-i", patch)
		cmd2.Dir = tmp
		if out2, err2 := cmd2.CombinedOutput(); err2 != nil {
			return nil, fmt.Errorf("does not apply: %s / %s", strings.TrimSpace(string(outb)), strings.TrimSpace(string(out2)))
		}
	}
	ov := map[string][]byte{}
	for _, f := range files {
		b, err := os.ReadFile(filepath.Join(tmp, f))
		if err != nil {
			return nil, err
		}
		ov[filepath.Join(repo, f)] = b
	}
	return ov, nil
}

// runWithOverlay loads the property's programs with the overlay and runs its rules.
func runWithOverlay(spec *PropSpec, repo string, ov map[string][]byte, goos, goarch string) (violations []string, err error) {
	progs := map[string]*Prog{}
	for _, n := range spec.Progs {
		p, e := LoadNamed(n, repo, ov, goos, goarch)
		if e != nil {
			return nil, e
		}
		progs[n] = p
	}
	defer func() {
		for _, p := range progs {
			p.Release()
		}
	}()
	sub := NewCtx(spec.ID, progs)
	func() {
		defer func() {
			if r := recover(); r != nil {
				violations = append(violations, fmt.Sprintf("checker panic: %v", r))
			}
		}()
		spec.Run(sub)
	}()
	// tally like Finish (including vacuity)
	counts := map[string]int{}
	for _, o := range sub.Obs {
		counts[o.Rule]++
		if o.Status != Discharged {
			violations = append(violations, o.Key)
		}
	}
	for _, ri := range sub.Rules {
		if counts[ri.Rule] < ri.MinExpected {
			violations = append(violations, ri.Rule+"|instance-count")
		}
	}
	return violations, nil
}

func init() {
	Thorough = thorough
}

func thorough(c *Ctx, spec *PropSpec, repo string, extra map[string]interface{}) {
	verif := os.Getenv("IPCHECK_VERIF")
	if verif == "" {
		verif = "/verif"
	}
	c.Rule("T.config", "the same rules hold under other GOOS/GOARCH build configurations", 0)
	c.Rule("T.corpus", "self-validation: every stored property-breaking change that still applies is reported", 0)
	c.Rule("T.refactor", "self-validation: behaviour-preserving refactors are not reported", 0)
	var mu sync.Mutex
	sem := make(chan struct{}, 6)
	deep := false
	for _, n := range spec.Progs {
		if progDefs[n].Deep {
			deep = true
		}
	}
	if deep {
		sem = make(chan struct{}, 3)
	}
	var wg sync.WaitGroup
	run := func(f func()) {
		wg.Add(1)
		go func() {
			defer wg.Done()
			sem <- struct{}{}
			defer func() { <-sem }()
			f()
		}()
	}
	// (a) configurations
	cfgs := [][2]string{{"linux", "386"}, {"darwin", "amd64"}, {"windows", "amd64"}}
	cfgRes := map[string]string{}
	for _, cf := range cfgs {
		cf := cf
		run(func() {
			v, err := runWithOverlay(spec, repo, nil, cf[0], cf[1])
			name := cf[0] + "/" + cf[1]
			mu.Lock()
			defer mu.Unlock()
			switch {
			case err != nil:
				// a configuration the module (or a dependency) does not build for is reported, not armed
				cfgRes[name] = "not loadable: " + firstLine(err.Error())
				c.OK("T.config", name, nil, 0, "configuration not loadable offline ("+firstLine(err.Error())+"): skipped, recorded")
			case len(v) > 0:
				cfgRes[name] = fmt.Sprintf("%d violation(s): %s", len(v), strings.Join(v, "; "))
				c.Bad("T.config", name, nil, 0, "under GOOS/GOARCH "+name+" the rules report: "+strings.Join(v, "; "))
			default:
				cfgRes[name] = "all obligations discharged"
				c.OK("T.config", name, nil, 0, "all obligations discharged under "+name)
			}
		})
	}
	// (b) corpus
	type cres struct {
		ID, Result string
		Hits       []string
	}
	var corpus []cres
	for _, ce := range append(loadCorpus(verif, "seeded"), loadCorpus(verif, "handmutants")...) {
		ce := ce
		mine := ce.Property == spec.ID
		for _, a := range ce.Also {
			if a == spec.ID {
				mine = true
			}
		}
		if !mine {
			continue
		}
		run(func() {
			ov, err := overlayFor(repo, filepath.Join(ce.Dir, "patch.diff"))
			if err != nil {
				mu.Lock()
				corpus = append(corpus, cres{ce.ID, "stale (no longer applies to the current tree): " + firstLine(err.Error()), nil})
				c.OK("T.corpus", ce.ID, nil, 0, "stale: the stored change no longer applies to the current tree (not a violation)")
				mu.Unlock()
				return
			}
			v, err := runWithOverlay(spec, repo, ov, "", "")
			mu.Lock()
			defer mu.Unlock()
			if err != nil {
				// a corpus entry that does not compile any more is stale
				corpus = append(corpus, cres{ce.ID, "stale (does not load): " + firstLine(err.Error()), nil})
				c.OK("T.corpus", ce.ID, nil, 0, "stale: the changed tree does not load ("+firstLine(err.Error())+")")
				return
			}
			if len(v) == 0 {
				corpus = append(corpus, cres{ce.ID, "NOT DETECTED", nil})
				c.Bad("T.corpus", ce.ID, nil, 0, "checker-regression: the stored property-breaking change "+ce.ID+" ("+ce.Needs+") applies to the current tree and none of this property's rules reports it")
				return
			}
			corpus = append(corpus, cres{ce.ID, "detected", v})
			c.OK("T.corpus", ce.ID, nil, 0, "reported by "+strings.Join(v, ", "))
		})
	}
	// (c) refactors
	var refac []cres
	for _, ce := range loadCorpus(verif, "refactors") {
		ce := ce
		run(func() {
			ov, err := overlayFor(repo, filepath.Join(ce.Dir, "patch.diff"))
			if err != nil {
				mu.Lock()
				refac = append(refac, cres{ce.ID, "stale: " + firstLine(err.Error()), nil})
				mu.Unlock()
				return
			}
			touches := false
			for f := range ov {
				for _, pn := range spec.Progs {
					_ = pn
				}
				_ = f
				touches = true
			}
			if !touches {
				return
			}
			v, err := runWithOverlay(spec, repo, ov, "", "")
			mu.Lock()
			defer mu.Unlock()
			if err != nil {
				refac = append(refac, cres{ce.ID, "stale (does not load): " + firstLine(err.Error()), nil})
				return
			}
			if len(v) > 0 {
				refac = append(refac, cres{ce.ID, "FALSE ALARM", v})
				c.Bad("T.refactor", ce.ID, nil, 0, "false alarm of the checker: the behaviour-preserving refactor "+ce.ID+" is reported: "+strings.Join(v, ", "))
				return
			}
			refac = append(refac, cres{ce.ID, "silent", nil})
			c.OK("T.refactor", ce.ID, nil, 0, "not reported")
		})
	}
	wg.Wait()
	sort.Slice(corpus, func(i, j int) bool { return corpus[i].ID < corpus[j].ID })
	sort.Slice(refac, func(i, j int) bool { return refac[i].ID < refac[j].ID })
	det, stale := 0, 0
	for _, r := range corpus {
		if r.Result == "detected" {
			det++
		}
		if strings.HasPrefix(r.Result, "stale") {
			stale++
		}
	}
	extra["selftest"] = map[string]interface{}{"corpus_entries": len(corpus), "detected": det, "stale": stale, "entries": corpus, "silent_refactors": refac}
	extra["configurations"] = cfgRes
	// (d) cross-reference linters, once (C07 carries them)
	if spec.ID == "C07" {
		xr := map[string]string{}
		for _, tool := range [][]string{{"go", "vet", "./..."}, {"staticcheck", "./..."}} {
			cmd := exec.Command(tool[0], tool[1:]...)
			cmd.Dir = repo
			cmd.Env = append(os.Environ(), "GOFLAGS=-mod=mod", "GOPROXY=off", "GOSUMDB=off", "GOWORK=off")
			out, _ := cmd.CombinedOutput()
			lines := strings.Split(strings.TrimSpace(string(out)), "\n")
			n := 0
			for _, l := range lines {
				if strings.Contains(l, ".go:") {
					n++
				}
			}
			xr[strings.Join(tool, " ")] = fmt.Sprintf("%d diagnostics (cross-reference only, never armed)", n)
		}
		extra["cross_reference"] = xr
	}
}

func firstLine(s string) string {
	if i := strings.IndexByte(s, '\n'); i >= 0 {
		s = s[:i]
	}
	if len(s) > 200 {
		s = s[:200]
	}
	return s
}

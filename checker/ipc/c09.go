package ipc

import (
	"fmt"
	"go/constant"
	"go/types"

	"golang.org/x/tools/go/ssa"
)

func init() {
	register(&PropSpec{
		ID:    "C09",
		Progs: []string{"mod"},
		Explanation: "Decides, for every client-supplied header set: (S) the asserted identity replaces client input: the write of X-Inverting-Proxy-User-ID onto the forwarded request is Header.Set with a key whose canonical form is the header's (or Add dominated by Del; a raw map store must use the canonical key); " +
			"(V) the asserted value is request.User, which parseRequestFromProxyResponse takes from the proxy reply's own header (not from the embedded client request); on the App Engine side the header comes from the stored request's User, which proxyHandler takes from user.Current(ctx).Email through role-checked parameters; " +
			"(D) under -forward-user-id every path from forwardRequest's entry to the handler-chain invocation passes the identity write, under -strip-credentials every such path passes Header.Del(\"Authorization\") on the forwarded request — i.e. before the whole chain, so that the websocket shim (which dials the backend itself with the request's headers) is covered too; neither happens after the invocation; " +
			"(N) nothing downstream re-introduces the fields: the shim dials with stripWSHeader(<the handler's request header>), and stripWSHeader only copies keys of its argument. " +
			"Not decided: what the App Engine runtime asserts; ReverseProxy's own Connection-header processing.",
		Assumptions: []string{"net/http canonicalises header keys on parsing; httputil.ReverseProxy forwards the request header it is given"},
		Run:         runC09,
	})
}

func runC09(c *Ctx) {
	p := c.Progs["mod"]
	c.Rule("C09.Y", "compatibility with the party that is not changed with this code: the cached request keeps the field the asserted user travels in", 1)
	ruleGobFieldsStable(c, p, "C09.Y", "memcache entries written by instances of the other build decode with that field empty: the agent is told an empty end-user identity for the request and forwards that", "app/types.Request")
	ruleStoredEntityLoadable(c, p, "C09.Y", "app/store.storedRequest")
	c.Rule("C09.S", "the asserted identity replaces, never joins, client input", 2)
	c.Rule("C09.V", "provenance of the asserted identity", 6)
	c.Rule("C09.D", "identity write and credential strip dominate the handler-chain invocation under their flags", 5)
	c.Rule("C09.N", "nothing downstream re-introduces or bypasses the filtered headers", 7)
	// the headers the shim injects into pushed messages are those of the request that carries
	// the push (= C11.J), not a snapshot taken when the session was opened for someone else
	c.Borrow(runC11, "C11.J", "C09.N", func(k string) bool { return k == "data:injected-values-are-request-headers" })
	canonUID := canonicalHeaderKey(hdrUserID)

	f := c.need(p, "C09.S", "agent.forwardRequest")
	if f == nil {
		return
	}
	serve := c.UniqueCall("C09.D", p, f, false, "(net/http.Handler).ServeHTTP")
	reqHdr := P(f, 2) + ".Contents.Header"

	// identity write sites: direct Header.Set/Add, or a module helper that receives the header
	type site struct {
		i   ssa.Instruction
		ok  bool
		why string
		val ssa.Value
	}
	var sites []site
	classifyIn := func(fn *ssa.Function, hdrIs func(ssa.Value) bool, valOf func(ssa.Value) ssa.Value, at ssa.Instruction) {
		EachInstr(fn, func(i ssa.Instruction) {
			switch x := i.(type) {
			case *ssa.Call:
				n := CalleeName(x.Common())
				if n != "(net/http.Header).Set" && n != "(net/http.Header).Add" {
					return
				}
				k, ok := ConstString(PArgs(&x.Call)[1])
				if !ok || canonicalHeaderKey(k) != canonUID || !hdrIs(PArgs(&x.Call)[0]) {
					return
				}
				s := site{i: at, val: valOf(PArgs(&x.Call)[2])}
				if n == "(net/http.Header).Set" {
					s.ok, s.why = true, "Header.Set replaces any client-supplied value"
				} else {
					// Add must be dominated by Del of the same key on the same header
					for _, d := range Calls(fn, "(net/http.Header).Del") {
						dk, _ := ConstString(PArgs(CallOf(d))[1])
						if canonicalHeaderKey(dk) == canonUID && hdrIs(PArgs(CallOf(d))[0]) && Dominates(d, i) {
							s.ok, s.why = true, "Header.Del then Header.Add"
						}
					}
					if !s.ok {
						s.why = "Header.Add keeps a client-supplied " + hdrUserID + " value in front of the asserted one: the backend receives two values, the forged one first"
					}
				}
				if at == nil {
					s.i = i
				}
				sites = append(sites, s)
			case *ssa.MapUpdate:
				k, ok := ConstString(x.Key)
				if !ok || canonicalHeaderKey(k) != canonUID || !hdrIs(x.Map) {
					return
				}
				s := site{i: at}
				if at == nil {
					s.i = i
				}
				if k == canonUID {
					s.ok, s.why = true, "map store under the canonical key replaces the client's value"
				} else {
					s.why = "raw map store under the non-canonical key " + k + ": the client's value (stored under the canonical key " + canonUID + " by net/http's parser) is not replaced and both reach the backend"
				}
				sites = append(sites, s)
			}
		})
	}
	classifyIn(f, func(v ssa.Value) bool { return PathOf(v) == reqHdr }, func(v ssa.Value) ssa.Value { return v }, nil)
	// one level of helpers
	EachInstr(f, func(i ssa.Instruction) {
		cc := CallOf(i)
		if cc == nil {
			return
		}
		g := StaticFunc(cc)
		if g == nil || !p.IsModFunc(g) || len(g.Blocks) == 0 {
			return
		}
		for k, a := range PArgs(cc) {
			if a == nil {
				continue
			}
			if PathOf(a) == reqHdr && k < len(g.Params) {
				pk := g.Params[k]
				classifyIn(g, func(v ssa.Value) bool { return rootIs(v, pk) }, func(v ssa.Value) ssa.Value {
					// map a parameter of the helper back to the call argument
					for j, gp := range g.Params {
						if rootIs(v, gp) && j < len(PArgs(cc)) {
							return PArgs(cc)[j]
						}
					}
					return v
				}, i)
			}
		}
	})
	if len(sites) == 0 {
		c.Bad("C09.S", "forwardRequest:identity-write", p, f.Pos(), "no write of "+hdrUserID+" onto the forwarded request found in forwardRequest (directly or through a helper taking the request header): with -forward-user-id the backend does not receive the asserted identity")
	}
	var writes []ssa.Instruction
	for k, s := range sites {
		key := fmt.Sprintf("forwardRequest:identity-write#%d", k+1)
		c.Check("C09.S", key, p, s.i.Pos(), s.ok, s.why, s.why)
		writes = append(writes, s.i)
		if s.val != nil {
			c.PathIs("C09.V", fmt.Sprintf("forwardRequest:identity-value#%d", k+1), p, s.i.Pos(), s.val, "the asserted value is the user the proxy reported for this request", P(f, 2)+".User")
		}
	}
	c.Check("C09.S", "forwardRequest:single-identity-write", p, f.Pos(), len(sites) == 1, "exactly one identity write", fmt.Sprintf("%d identity write sites", len(sites)))

	// ---- C09.V
	if pf := c.need(p, "C09.V", "agent/utils.parseRequestFromProxyResponse"); pf != nil {
		as := AllocsOf(pf, "agent/utils.ForwardedRequest")
		if len(as) == 1 {
			v, ok := LiteralField(as[0], "User")
			okv := false
			if ok {
				if g := CallResult(v, 0, "(net/http.Header).Get"); g != nil {
					k, _ := ConstString(PArgs(&g.Call)[1])
					okv = PathOf(PArgs(&g.Call)[0]) == P(pf, 2)+".Header" && k == hdrUserID
				}
			}
			c.Check("C09.V", "parse:user-from-proxy-reply-header", p, as[0].Pos(), okv, "ForwardedRequest.User = proxyResp.Header.Get("+hdrUserID+"): the proxy's assertion, not the embedded client request", "ForwardedRequest.User ("+PathOf(v)+") is not read from the "+hdrUserID+" header of the proxy's reply: a client can assert its own identity")
		} else {
			c.Unk("C09.V", "parse:user-from-proxy-reply-header", p, pf.Pos(), "expected one ForwardedRequest literal")
		}
	}
	if rh := c.need(p, "C09.V", "app.requestHandler"); rh != nil {
		ok := false
		for _, call := range Calls(rh, "(net/http.Header).Add", "(net/http.Header).Set") {
			a := PArgs(CallOf(call))
			if k, isC := ConstString(a[1]); isC && k == hdrUserID {
				ok = PathOf(a[2]) == "result0:("+ModPath+"/app/types.Store).ReadRequest.User"
			}
		}
		c.Check("C09.V", "app:reply-header-from-stored-request", p, rh.Pos(), ok, "the App Engine proxy asserts the stored request's User", "the App Engine proxy's fetch reply does not carry the User of the request read from the store")
	}
	if ph := c.need(p, "C09.V", "app.proxyHandler"); ph != nil {
		if p.Func("app.postRequest") == nil {
			// postRequest inlined: proxyHandler builds the stored request itself
			if nr := c.UniqueCall("C09.V", p, ph, false, ModPath+"/app/types.NewRequest"); nr != nil {
				c.ArgIs("C09.V", "app:stored-user-is-signed-in-user", p, nr, 2, "the stored user is the App Engine signed-in user", "result:google.golang.org/appengine/v2/user.Current.Email")
				c.OK("C09.V", "app:postRequest→NewRequest:user-role", p, nr.Pos(), "postRequest was inlined: the user is passed to types.NewRequest directly")
			}
		} else if pr := c.UniqueCall("C09.V", p, ph, false, ModPath+"/app.postRequest"); pr != nil {
			c.ArgIs("C09.V", "app:stored-user-is-signed-in-user", p, pr, 4, "the stored user is the App Engine signed-in user", "result:google.golang.org/appengine/v2/user.Current.Email")
		}
	}
	if p.Func("app.postRequest") == nil {
	} else if po := c.need(p, "C09.V", "app.postRequest"); po != nil {
		if nr := c.UniqueCall("C09.V", p, po, false, ModPath+"/app/types.NewRequest"); nr != nil {
			c.ArgIs("C09.V", "app:postRequest→NewRequest:user-role", p, nr, 2, "user e-mail role", P(po, 4))
		}
	}
	if nr := c.need(p, "C09.V", "app/types.NewRequest"); nr != nil {
		as := AllocsOf(nr, "app/types.Request")
		if len(as) == 1 {
			if v, ok := LiteralField(as[0], "User"); ok {
				c.PathIs("C09.V", "app:NewRequest:user-field", p, as[0].Pos(), v, "Request.User", P(nr, 2))
			}
		}
	}

	// ---- C09.D
	if serve != nil {
		flagEnv := func(flag string, val bool) Env {
			return func(v ssa.Value) (constant.Value, bool) {
				if PathOf(v) == "**global:"+flag {
					if _, isU := v.(*ssa.UnOp); isU {
						return constant.MakeBool(val), true
					}
				}
				return nil, false
			}
		}
		isWrite := func(i ssa.Instruction) bool {
			for _, w := range writes {
				if w == i {
					return true
				}
			}
			return false
		}
		isStrip := func(i ssa.Instruction) bool {
			if !IsCall(i, "(net/http.Header).Del") {
				return false
			}
			a := PArgs(CallOf(i))
			k, ok := ConstString(a[1])
			return ok && canonicalHeaderKey(k) == "Authorization" && PathOf(a[0]) == reqHdr
		}
		isServe := func(i ssa.Instruction) bool { return i == serve }
		hit, path := (&Walk{Target: isServe, Avoid: isWrite, Edge: EdgeUnder(flagEnv("forwardUserID", true))}).FromBlock(f.Blocks[0])
		c.Check("C09.D", "forward-user-id:write-before-chain", p, serve.Pos(), hit == nil && len(writes) > 0, "with -forward-user-id every path to the handler chain passes the identity write", "with -forward-user-id the handler chain can be entered without the identity write ("+PathString(p, path)+")")
		hit, _ = (&Walk{Target: isWrite, Edge: EdgeUnder(flagEnv("forwardUserID", false))}).FromBlock(f.Blocks[0])
		c.Check("C09.D", "forward-user-id:only-under-flag", p, serve.Pos(), hit == nil, "without the flag the identity header is not written", "the identity header is written although -forward-user-id is off")
		hit, path = (&Walk{Target: isServe, Avoid: isStrip, Edge: EdgeUnder(flagEnv("stripCredentials", true))}).FromBlock(f.Blocks[0])
		c.Check("C09.D", "strip-credentials:strip-before-chain", p, serve.Pos(), hit == nil, "with -strip-credentials every path to the handler chain passes Header.Del(\"Authorization\") on the forwarded request: plain requests and websocket-shim opens alike", "with -strip-credentials the handler chain is entered without Authorization having been deleted from the forwarded request ("+PathString(p, path)+"): the websocket shim dials the backend itself with the request's headers, so stripping anywhere later (e.g. in the reverse proxy's Director) leaves shim connections carrying the client's credentials")
		// nothing after the invocation
		late := ""
		EachInstr(f, func(i ssa.Instruction) {
			if (isWrite(i) || isStrip(i)) && Dominates(serve, i) {
				late = p.Pos(i.Pos())
			}
		})
		c.Check("C09.D", "no-header-rewrite-after-chain", p, serve.Pos(), late == "", "no identity write / strip after the chain ran", "identity write or credential strip at "+late+" happens after the handler chain already ran")
		// the chain serves the request whose header was filtered
		c.ArgIs("C09.D", "chain-serves-filtered-request", p, serve, 2, "the request handed to the chain is the one whose header was filtered", P(f, 2)+".Contents")
	}

	// ---- C09.N
	if sw := c.need(p, "C09.N", "agent/websockets.stripWSHeader"); sw != nil {
		bad := ""
		n := 0
		EachInstr(sw, func(i ssa.Instruction) {
			if mu, ok := i.(*ssa.MapUpdate); ok {
				n++
				val := mu.Value
				// a defensive copy of the value slice: append([]string(nil), v...) / append([]string{}, v...)
				if call, isC := val.(*ssa.Call); isC {
					if b, isB := call.Call.Value.(*ssa.Builtin); isB && b.Name() == "append" && len(call.Call.Args) == 2 {
						empty := IsNilConst(call.Call.Args[0])
						if sl, isSl := call.Call.Args[0].(*ssa.Slice); isSl {
							if al, isAl := sl.X.(*ssa.Alloc); isAl {
								if at, isArr := derefT(al.Type()).Underlying().(*types.Array); isArr && at.Len() == 0 {
									empty = true
								}
							}
						}
						if empty {
							val = call.Call.Args[1]
						}
					}
				}
				if PathOf(mu.Key) != "rangekey("+P(sw, 0)+")" || PathOf(val) != "rangeval("+P(sw, 0)+")" {
					bad = "stores " + PathOf(mu.Key) + " → " + PathOf(mu.Value)
				}
			}
		})
		c.Check("C09.N", "stripWSHeader:copies-only", p, sw.Pos(), bad == "" && n == 1, "stripWSHeader only copies key/value pairs of its argument (minus the websocket handshake fields)", "stripWSHeader "+bad+": it can introduce header fields the request did not carry")
	}
	if nc := c.need(p, "C09.N", "agent/websockets.NewConnection"); nc != nil {
		if d := c.UniqueCall("C09.N", p, nc, false, "(*github.com/gorilla/websocket.Dialer).Dial", "(*github.com/gorilla/websocket.Dialer).DialContext"); d != nil {
			a := Args(CallOf(d))
			h := a[len(a)-1]
			ok := false
			if call := CallResult(h, 0, ModPath+"/agent/websockets.stripWSHeader"); call != nil {
				ok = PathOf(PArgs(&call.Call)[0]) == P(nc, 2)
			}
			c.Check("C09.N", "dial:header-is-stripped-request-header", p, d.Pos(), ok, "the websocket handshake carries stripWSHeader(<header passed in>)", "the websocket dial header ("+PathOf(h)+") is not stripWSHeader(header parameter)")
		}
	}
	if se := resolveShimEndpoints(c, p, "C09.N"); se != nil && se.Inner != nil {
		if ncall := c.UniqueCall("C09.N", p, se.Inner, false, ModPath+"/agent/websockets.NewConnection"); ncall != nil {
			c.ArgIs("C09.N", "open:dial-header-is-request-header", p, ncall, 2, "the header given to the dial is the (already filtered) header of the request the chain received", P(se.Inner, 1)+".Header")
		}
		if op := se.ByName["open"]; op != nil {
			// the open endpoint delegates with its own r
			n := 0
			for _, call := range Calls(op, "(net/http.Handler).ServeHTTP") {
				n++
				c.ArgIs("C09.N", "open:delegates-own-request", p, call, 2, "the open endpoint passes its own request on", P(op, 1))
			}
			if n == 0 {
				c.Bad("C09.N", "open:delegates-own-request", p, op.Pos(), "the open endpoint does not delegate to the open handler")
			}
		}
	}
	// the identity header cannot be made hop-by-hop by the client: the agent's reverse proxy drops
	// every field named in a Connection header AFTER the agent set the identity, so a client-supplied
	// "Connection: X-Inverting-Proxy-User-ID" would leave the backend with no identity at all. The
	// stand-alone proxy removes Connection from client requests before it stores them.
	if sv := c.need(p, "C09.N", "server.(*proxy).ServeHTTP"); sv != nil {
		_, sk, _, ok2 := hopTableKeys(p)
		has := false
		for _, k := range sk {
			if canonicalHeaderKey(k) == "Connection" {
				has = true
			}
		}
		// the filter loop: a range over a header map whose body deletes the ranged key under
		// isHopByHopHeader(key); every path to the publication of the request (the insertion into
		// the pending table) passes that loop
		var loop *ssa.Range
		EachInstr(sv, func(i ssa.Instruction) {
			if !IsCall(i, "(net/http.Header).Del") {
				return
			}
			if _, isC := ConstString(PArgs(CallOf(i))[1]); isC {
				return
			}
			guarded := false
			for b := i.Block(); b != nil && !guarded; b = b.Idom() {
				if ifi := BlockIf(b); ifi != nil && CallResult(ifi.Cond, 0, ModPath+"/server.isHopByHopHeader") != nil {
					guarded = true
				}
			}
			if !guarded {
				return
			}
			for _, r := range Roots(PArgs(CallOf(i))[1]) {
				if ex, isE := r.(*ssa.Extract); isE {
					if nx, isN := ex.Tuple.(*ssa.Next); isN {
						if rg, isR := nx.Iter.(*ssa.Range); isR && NamedType(rg.X.Type()) == "net/http.Header" {
							loop = rg
						}
					}
				}
			}
		})
		published := func(i ssa.Instruction) bool {
			mu, isMU := i.(*ssa.MapUpdate)
			if !isMU {
				return false
			}
			_, fld, isF := FieldLoad(mu.Map)
			return isF && fld == "requests"
		}
		okc := ok2 && has && loop != nil
		if okc {
			hit, _ := (&Walk{Target: published, Avoid: func(i ssa.Instruction) bool { return i == ssa.Instruction(loop) }, Ctx: sv}).FromBlock(sv.Blocks[0])
			npub := 0
			EachInstr(sv, func(i ssa.Instruction) {
				if published(i) {
					npub++
				}
			})
			okc = hit == nil && npub >= 1
		}
		c.Check("C09.N", "proxy:connection-header-removed-before-storing", p, sv.Pos(), okc, "the stand-alone proxy deletes the hop-by-hop fields (Connection among them) of a client request before it stores the request for the agent", "the stand-alone proxy no longer removes Connection from client requests before storing them: a client can name "+hdrUserID+" in Connection and the agent's reverse proxy then drops the asserted identity on its way to the backend")
	}
	// nothing behind the filter writes the filtered fields: no header write (Set, Add, map store,
	// SetBasicAuth) with the key Authorization or the user-ID header in the packages of the chain
	{
		bad := ""
		n := 0
		for _, pkg := range []string{"agent/sessions", "agent/banner", "agent/websockets"} {
			for _, fn := range p.AllFuncsIn(pkg) {
				EachInstrRaw(fn, func(i ssa.Instruction) {
					var key ssa.Value
					switch x := i.(type) {
					case *ssa.MapUpdate:
						if NamedType(x.Map.Type()) == "net/http.Header" {
							key = x.Key
						}
					default:
						cc := CallOf(i)
						if cc == nil {
							return
						}
						switch CalleeName(cc) {
						case "(net/http.Header).Set", "(net/http.Header).Add":
							key = PArgs(cc)[1]
						case "(*net/http.Request).SetBasicAuth":
							bad = "SetBasicAuth in " + FuncName(fn) + " at " + p.Pos(i.Pos())
						}
					}
					if key == nil {
						return
					}
					n++
					if k, ok := ConstString(key); ok {
						switch canonicalHeaderKey(k) {
						case "Authorization", canonicalHeaderKey(hdrUserID):
							bad = "header " + canonicalHeaderKey(k) + " is written in " + FuncName(fn) + " at " + p.Pos(i.Pos())
						}
					}
				})
			}
		}
		c.Check("C09.N", "chain:no-writer-of-filtered-headers", p, 0, bad == "" && n > 0, fmt.Sprintf("%d header writes in agent/sessions, agent/banner and agent/websockets: none writes Authorization or "+hdrUserID, n), bad+": behind the agent's filter a credential or identity header is (re-)introduced — e.g. Basic credentials built from the user info of a client-supplied websocket URL reach the backend although --strip-credentials removed the client's own header")
	}
}

package ipc

import (
	"fmt"
	"go/constant"
	"go/token"
	"go/types"
	"time"

	"golang.org/x/tools/go/ssa"
)

func init() {
	register(&PropSpec{
		ID:    "C06",
		Progs: []string{"mod"},
		Explanation: "Decides, for every fault sequence: (A) the upload loop makes at most three attempts (counted loop, partial evaluation of its bound); " +
			"(S) every path from one client.Do to the next passes a rewind-to-start whose failure leaves the function; " +
			"(R) the rewind refuses exactly when the retained prefix may be incomplete (truth table of writeHead vs len(buf), offset bounds, whence) and the buffer size is a positive constant; " +
			"(X) the replay state is only touched under its mutex, each attempt reads through a handle created by that attempt's own rewind, and a stale handle cannot reach the source (equality truth table on the generation); " +
			"(E) a failed upload unblocks everybody: deferred pipe closes in both goroutines, CloseWithError on serialisation failure, error channels sized for their senders and closed, Close() drains both, the publication of the response is a select next to the request context. " +
			"Not decided: the byte content of an attempt for a given fault offset inside net/http.Transport. " +
			"(B) offset agreement inside the replay buffer's Read: with k bytes replayed and n bytes read from the source into p[k:], the retained bytes are p[k:k+n] appended at writeHead, writeHead advances by the retained count and k+n is reported — evaluated for k=3,n=5 and k=0,n=5 through nested slices. " +
			"(A, second part) the upload request has no GetBody and no body type for which http.NewRequest sets one, so net/http never re-sends it inside one client.Do.",
		Assumptions: []string{
			"net/http.Transport reads Request.Body only through its Read method; io.Pipe delivers each write to exactly one reader",
			"a reader goroutine superseded by a retry is eventually released by the next pipe write or close",
		},
		Run: runC06,
	})
}

const seekName = "(*" + ModPath + "/agent/utils.bufferedReadSeeker).Seek"

// isSeekStart: call of the replay buffer's Seek with (0, io.SeekStart).
func isSeekStart(i ssa.Instruction) bool {
	if !IsCall(i, seekName) {
		return false
	}
	a := PArgs(CallOf(i))
	return isConstInt(a[1], 0) && isConstInt(a[2], 0)
}

// rewinder: fn is a function all of whose returns are dominated by a
// Seek(0, SeekStart) call and whose error path returns that error.
func rewinder(fn *ssa.Function) bool {
	if fn == nil || len(fn.Blocks) == 0 {
		return false
	}
	var seek ssa.Instruction
	n := 0
	EachInstr(fn, func(i ssa.Instruction) {
		if isSeekStart(i) {
			seek = i
			n++
		}
	})
	if n != 1 {
		return false
	}
	ok := true
	EachInstr(fn, func(i ssa.Instruction) {
		if _, isR := i.(*ssa.Return); isR {
			if fn.Recover != nil && i.Block() == fn.Recover {
				return // synthetic return of the recover block (function has defers)
			}
			if !Dominates(seek, i) {
				ok = false
			}
		}
	})
	if !ok {
		return false
	}
	// the seek error is tested and its non-nil branch returns a non-nil error
	tested := false
	EachInstr(fn, func(i ssa.Instruction) {
		if ifi, isIf := i.(*ssa.If); isIf {
			if v, succ, ok := ErrNilTest(ifi); ok && CallResult(v, 1, seekName) != nil {
				blk := ifi.Block().Succs[succ]
				for _, in := range blk.Instrs {
					if r, isR := in.(*ssa.Return); isR {
						last := ReturnValue(r, len(r.Results)-1)
						if CallResult(last, 1, seekName) != nil {
							tested = true
						}
					}
				}
			}
		}
	})
	return tested
}

func runC06(c *Ctx) {
	p := c.Progs["mod"]
	c.Rule("C06.Y", "compatibility with the party that is not changed with this code: only list/fetch/post exchanges; a cut-short upload is answered 5xx; the proxy timeout is always applied", 4)
	ruleAgentProxyExchanges(c, p, "C06.Y")
	ruleUploadReadFailureIs5xx(c, p, "C06.Y")
	ruleProxyTimeoutAlwaysApplied(c, p, "C06.Y")
	f := c.need(p, "C06.A", "agent/utils.postResponseWithRetries")
	c.Rule("C06.A", "at most three upload attempts", 3)
	ruleOneSendPerRoundTrip(c, p, "C06.A")
	c.Rule("C06.S", "every retry edge passes a successful rewind", 3)
	c.Rule("C06.R", "the rewind refuses exactly when the prefix may be incomplete", 9)
	c.Rule("C06.X", "the replayed body cannot be raced or robbed by a superseded attempt", 8)
	c.Rule("C06.E", "a failed upload unblocks the serialiser, the handler and Close()", 13)
	if f != nil {
		do := c.UniqueCall("C06.A", p, f, false, "(*net/http.Client).Do")
		if do != nil {
			c06Attempts(c, p, f, do)
			c06Rewind(c, p, "C06.S", f, do)
		}
	}
	ruleNoGetBody(c, p, "C06.A")
	ruleChainNotRetried(c, p, "C06.A")
	c06Refusal(c, p, "C06.R")
	ruleNoUnboundedWaitBetweenAttempts(c, p, "C06.E", "agent/utils.postResponseWithRetries", 10*time.Second)
	c.Rule("C06.L", "recording a metric never holds up the serialiser or the handler (= C05.L)", 3)
	c.Borrow(runC05, "C05.L", "C06.L", nil)
	c.Rule("C06.B", "the replay buffer retains exactly the bytes it handed out, at the offsets it handed them out", 10)
	ruleNoOwnCopyLoop(c, p, "C06.B", "agent/utils")
	c06Retain(c, p, "C06.B")
	c06Fence(c, p, "C06.X", f)
	c06Unblock(c, p)
}

// loopCounter finds the phi that counts iterations of the loop containing blk:
// edges are one constant and otherwise phi+1.
func loopCounter(fn *ssa.Function) (phi *ssa.Phi, init int64) {
	for _, b := range fn.Blocks {
		for _, in := range b.Instrs {
			ph, ok := in.(*ssa.Phi)
			if !ok {
				break
			}
			okShape := true
			nInit := 0
			var iv0 int64
			for _, e := range ph.Edges {
				if n, isC := ConstInt(e); isC {
					nInit++
					iv0 = n
					continue
				}
				bo, isB := e.(*ssa.BinOp)
				if !(isB && bo.Op == token.ADD && bo.X == ssa.Value(ph) && isConstInt(bo.Y, 1)) {
					okShape = false
				}
			}
			if okShape && nInit == 1 && len(ph.Edges) >= 2 {
				if _, isInt := ph.Type().Underlying().(*types.Basic); isInt {
					// must control an If
					for _, r := range Refs(ph) {
						if bo, ok := r.(*ssa.BinOp); ok {
							for _, u := range Refs(bo) {
								if _, ok := u.(*ssa.If); ok {
									return ph, iv0
								}
							}
						}
					}
				}
			}
		}
	}
	return nil, 0
}

func c06Attempts(c *Ctx, p *Prog, f *ssa.Function, do ssa.Instruction) {
	if !InLoop(do.Block()) {
		c.OK("C06.A", "upload:attempt-bound", p, do.Pos(), "client.Do is not in a loop: a single attempt")
		return
	}
	phi, init := loopCounter(f)
	// the sending call may sit in a new helper that holds the body of one attempt: the loop is
	// then judged at the helper's only call site
	anchor := do
	for k := 0; k < 4 && anchor.Parent() != f; k++ {
		sites := liftSites(anchor)
		if len(sites) != 1 {
			break
		}
		anchor = sites[0]
	}
	if phi == nil || anchor.Parent() != f || !(phi.Block().Dominates(anchor.Block())) {
		c.Bad("C06.A", "upload:attempt-bound", p, do.Pos(), "client.Do is inside a loop that is not a counted loop (counter phi with constant start and +1 steps controlling the exit): the number of attempts is not bounded by a constant")
		return
	}
	attempts := 0
	for k := init; k < init+12; k++ {
		kk := k
		env := func(v ssa.Value) (constant.Value, bool) {
			if v == ssa.Value(phi) {
				return IntC(kk), true
			}
			return nil, false
		}
		w := &Walk{Target: func(i ssa.Instruction) bool { return i == do }, Edge: EdgeUnder(env)}
		if hit, _ := w.FromBlock(phi.Block()); hit != nil {
			attempts++
		} else {
			break
		}
	}
	c.Check("C06.A", "upload:attempt-bound", p, do.Pos(), attempts >= 1 && attempts <= 3, fmt.Sprintf("counted loop: client.Do is reachable for %d counter value(s): at most three attempts", attempts), fmt.Sprintf("the upload loop allows %d (or more) attempts; the property allows at most three", attempts))
	// no second Do, no nested loop around it other than the counted one
	c.Check("C06.A", "upload:single-do-site", p, do.Pos(), len(Calls(f, "(*net/http.Client).Do", "(*net/http.Client).Post", "(net/http.RoundTripper).RoundTrip")) == 1, "one request-sending call site in the upload function", "more than one request-sending call site in the upload function")
}

func c06Rewind(c *Ctx, p *Prog, rule string, f *ssa.Function, do ssa.Instruction) {
	isRew := func(i ssa.Instruction) bool {
		if isSeekStart(i) {
			return true
		}
		if cc := CallOf(i); cc != nil {
			if fn := StaticFunc(cc); fn != nil && p.IsModFunc(fn) && rewinder(fn) {
				return true
			}
		}
		return false
	}
	var rews []ssa.Instruction
	EachInstr(f, func(i ssa.Instruction) {
		if isRew(i) {
			rews = append(rews, i)
		}
	})
	if len(rews) == 0 {
		if InLoop(do.Block()) {
			c.Bad(rule, "retry:rewind-on-every-edge", p, do.Pos(), "the upload is retried but no rewind of the replay buffer (Seek(0, io.SeekStart), directly or through a helper) exists: a retry continues mid-stream")
		} else {
			c.OK(rule, "retry:rewind-on-every-edge", p, do.Pos(), "no retry")
		}
		return
	}
	// Do → … → Do without passing a rewind
	w := &Walk{Target: func(i ssa.Instruction) bool { return i == do }, Avoid: isRew}
	hit, path := w.FromInstr(do)
	c.Check(rule, "retry:rewind-on-every-edge", p, do.Pos(), hit == nil, "every path from one client.Do to the next passes a rewind to the first byte", "a retry path reaches client.Do again without rewinding the body ("+PathString(p, path)+"): the attempt starts mid-stream and the proxy may acknowledge a truncated upload")
	// each rewind's error is tested and failure does not reach Do
	for k, rw := range rews {
		key := fmt.Sprintf("retry:rewind#%d-failure-gives-up", k+1)
		var errVal ssa.Value
		if call, ok := rw.(*ssa.Call); ok {
			for _, r := range Refs(call) {
				if e, ok := r.(*ssa.Extract); ok && e.Index == call.Call.Signature().Results().Len()-1 {
					errVal = e
				}
			}
		}
		if errVal == nil {
			c.Bad(rule, key, p, rw.Pos(), "the error of the rewind is discarded: a refused rewind (prefix no longer replayable) is followed by another attempt")
			continue
		}
		var tst *ssa.If
		succ := 0
		for _, r := range Refs(errVal) {
			if bo, ok := r.(*ssa.BinOp); ok {
				for _, u := range Refs(bo) {
					if ifi, ok := u.(*ssa.If); ok {
						if _, s, ok := ErrNilTest(ifi); ok {
							tst, succ = ifi, s
						}
					}
				}
			}
		}
		if tst == nil {
			c.Bad(rule, key, p, rw.Pos(), "the error of the rewind is not tested")
			continue
		}
		w := &Walk{Target: func(i ssa.Instruction) bool { return i == do }}
		hit, path := w.FromBlock(tst.Block().Succs[succ])
		c.Check(rule, key, p, rw.Pos(), hit == nil, "a refused rewind leaves the function", "after a refused rewind the code still reaches client.Do ("+PathString(p, path)+")")
		// and the success branch is the only way to Do: Do is dominated by the rewind in the same iteration
		c.Check(rule, fmt.Sprintf("retry:rewind#%d-tested-before-do", k+1), p, rw.Pos(), Dominates(tst, do) || !Dominates(rw, do), "the rewind result is checked before the next attempt", "the next attempt starts before the rewind result is checked")
	}
}

func c06Refusal(c *Ctx, p *Prog, rule string) {
	f := c.need(p, rule, "agent/utils.(*bufferedReadSeeker).Seek")
	if f == nil {
		return
	}
	var reset []ssa.Instruction
	for _, st := range StoresToField([]*ssa.Function{f}, "agent/utils.bufferedReadSeeker", "readHead") {
		reset = append(reset, st)
	}
	if len(reset) == 0 {
		c.Unk(rule, "seek:reset-site", p, f.Pos(), "Seek no longer stores to readHead")
		return
	}
	isReset := func(i ssa.Instruction) bool {
		for _, r := range reset {
			if r == i {
				return true
			}
		}
		return false
	}
	const L = 4096
	mkEnv := func(writeHead, offset, whence int64) Env {
		return func(v ssa.Value) (constant.Value, bool) {
			if _, fld, ok := FieldLoad(v); ok && fld == "writeHead" {
				return IntC(writeHead), true
			}
			if call, ok := v.(*ssa.Call); ok {
				if b, ok := call.Call.Value.(*ssa.Builtin); ok && (b.Name() == "len" || b.Name() == "cap") {
					if _, fld, ok := FieldLoad(PArgs(&call.Call)[0]); ok && fld == "buf" {
						return IntC(L), true
					}
				}
			}
			if prm := ParamAt(f, 1); prm != nil && v == ssa.Value(prm) {
				return IntC(offset), true
			}
			if prm := ParamAt(f, 2); prm != nil && v == ssa.Value(prm) {
				return IntC(whence), true
			}
			return nil, false
		}
	}
	type tc struct {
		name                   string
		writeHead, off, whence int64
		wantReset              bool
		why                    string
	}
	cases := []tc{
		{"prefix-incomplete:writeHead=len", L, 0, 0, false, "the buffer is full, bytes beyond it may already have been sent and cannot be replayed"},
		{"prefix-incomplete:writeHead>len", L + 1, 0, 0, false, "the buffer overflowed"},
		{"prefix-complete:writeHead=len-1", L - 1, 0, 0, true, "the whole stream so far is retained: the retry must be possible"},
		{"prefix-complete:writeHead=0", 0, 0, 0, true, "nothing consumed yet: the retry must be possible"},
		{"offset-negative", 10, -1, 0, false, "negative offset"},
		{"offset-beyond-buffer", 10, L, 0, false, "offset outside the buffer"},
		{"whence-not-start", 10, 0, 1, false, "only SeekStart can be honoured by a replay buffer"},
	}
	for _, t := range cases {
		w := &Walk{Target: isReset, Edge: EdgeUnder(mkEnv(t.writeHead, t.off, t.whence))}
		hit, _ := w.FromBlock(f.Blocks[0])
		got := hit != nil
		want := "refuses"
		if t.wantReset {
			want = "rewinds"
		}
		c.Check(rule, "seek:"+t.name, p, f.Pos(), got == t.wantReset, fmt.Sprintf("Seek %s for writeHead=%d, len(buf)=%d, offset=%d, whence=%d (%s)", want, t.writeHead, L, t.off, t.whence, t.why), fmt.Sprintf("Seek does not behave as required for writeHead=%d, len(buf)=%d, offset=%d, whence=%d: expected it %s (%s)", t.writeHead, L, t.off, t.whence, want, t.why))
	}
	// the reset stores the offset (0 at the call site), not something else
	for _, st := range reset {
		v := st.(*ssa.Store).Val
		okv := false
		if cv, ok := Peel(v).(*ssa.Convert); ok && cv.X == ssa.Value(ParamAt(f, 1)) {
			okv = true
		}
		if v == ssa.Value(ParamAt(f, 1)) {
			okv = true
		}
		c.Check(rule, "seek:reset-to-offset", p, st.Pos(), okv, "readHead is set to the requested offset", "readHead is reset to "+PathOf(v)+" rather than to the requested offset")
	}
	// construction: constant positive size, buffer = make([]byte, size)
	if ctor := c.need(p, rule, "agent/utils.newBufferedReadSeeker"); ctor != nil {
		okSize := false
		for _, fn := range p.FuncsIn("agent/utils") {
			for _, call := range Calls(fn, ModPath+"/agent/utils.newBufferedReadSeeker") {
				if n, ok := ConstInt(PArgs(CallOf(call))[1]); ok && n > 0 {
					okSize = true
					c.Infof("replay buffer size at %s: %d bytes", p.Pos(call.Pos()), n)
				} else if win, err := (&interp{p: p, globals: map[string]iv{}}).evalValue(PArgs(CallOf(call))[1], 0); err == nil && win.kind == 'i' && win.ilo.Sign() > 0 {
					// a configured size validated/clamped to a positive range
					okSize = true
					c.Infof("replay buffer size at %s: %s bytes", p.Pos(call.Pos()), win)
				} else {
					okSize = false
				}
			}
		}
		c.Check(rule, "buffer:constant-positive-size", p, ctor.Pos(), okSize, "the replay buffer is created with a positive size (a constant, or a value whose interval has a positive lower bound)", "the replay buffer size is not provably positive at its construction site")
	}
}

func c06Fence(c *Ctx, p *Prog, rule string, post *ssa.Function) {
	// (1) lockset over the replay state
	guards := []*Guard{}
	// (the source itself is part of that state: a superseded attempt that still reads it — with
	// the lock released "so that a retry need not wait" — takes bytes the retry then misses)
	for _, fld := range []string{"readHead", "writeHead", "buf", "gen", "r"} {
		guards = append(guards, &Guard{Type: "agent/utils.bufferedReadSeeker", Field: fld, Lock: "agent/utils.bufferedReadSeeker.mu",
			Why:    "net/http's transport may still be reading the body of a failed attempt in its own goroutine when the retry rewinds and re-reads it",
			Exempt: map[string]string{"agent/utils.newBufferedReadSeeker": "constructor"}})
	}
	// fields may not exist (gen): skip silently those without accesses except the three core ones
	ls := ComputeLocksets(p)
	for _, g := range guards {
		accs := GuardedAccesses(p, g)
		if len(accs) == 0 {
			if g.Field == "gen" || g.Field == "r" {
				continue
			}
			c.Unk(rule, "guard:"+g.Field, p, 0, "replay-buffer field "+g.Field+" has no access (renamed?)")
			continue
		}
		bad := ""
		for _, a := range accs {
			if _, ex := g.Exempt[FuncName(a.Fn)]; ex {
				continue
			}
			if !ls.Held(a.Instr)[g.Lock] {
				bad = fmt.Sprintf("%s in %s at %s without %s", a.What, FuncName(a.Fn), p.Pos(a.Instr.Pos()), g.Lock)
				break
			}
		}
		c.Check(rule, "lockset:bufferedReadSeeker."+g.Field, p, 0, bad == "", "every access holds the replay buffer's mutex", bad+": "+g.Why+" — data race on the replay state, the acknowledged attempt can miss or duplicate bytes")
	}
	if post == nil {
		return
	}
	// (2) per-attempt handle: the body of the request given to Do derives from the rewind call result
	do := c.UniqueCall(rule, p, post, false, "(*net/http.Client).Do")
	if do == nil {
		return
	}
	req := Args(CallOf(do))[1]
	var bodyVal ssa.Value
	EachInstr(post, func(i ssa.Instruction) {
		if st, ok := i.(*ssa.Store); ok {
			if base, fld, ok := FieldAddrOf(st.Addr); ok && fld == "Body" && SameValue(base, req) {
				bodyVal = st.Val
			}
		}
	})
	isRewCall := func(v ssa.Value) bool {
		call, ok := v.(*ssa.Call)
		if !ok {
			return false
		}
		fn := StaticFunc(call.Common())
		return fn != nil && p.IsModFunc(fn) && rewinder(fn)
	}
	if bodyVal == nil {
		c.Bad(rule, "fence:per-attempt-handle", p, do.Pos(), "the request sent by client.Do does not get a per-attempt body (no store to its Body field in the loop): all attempts share one body object, so a superseded attempt's reader can take bytes meant for the retry")
	} else {
		reaches, _ := DerivesFrom(bodyVal, isRewCall, func(ssa.Value) bool { return false })
		c.Check(rule, "fence:per-attempt-handle", p, do.Pos(), reaches && InLoop(do.Block()) || reaches, "each attempt's body is the handle returned by that attempt's own rewind", "the body given to client.Do ("+PathOf(bodyVal)+") is not produced by the attempt's own rewind call: attempts share a reader")
	}
	// (3) the handle refuses when stale
	if rd := c.need(p, rule, "agent/utils.(attemptReader).Read"); rd != nil {
		src := Calls(rd, "(*"+ModPath+"/agent/utils.bufferedReadSeeker).Read")
		if len(src) != 1 {
			c.Unk(rule, "fence:stale-handle-refused", p, rd.Pos(), "attemptReader.Read does not delegate to the replay buffer at exactly one site")
		} else {
			env := func(equal bool) Env {
				return func(v ssa.Value) (constant.Value, bool) {
					if base, fld, ok := FieldLoad(v); ok && fld == "gen" {
						if NamedTypeRel(base.Type()) == "agent/utils.attemptReader" {
							return IntC(1), true
						}
						if equal {
							return IntC(1), true
						}
						return IntC(2), true
					}
					return nil, false
				}
			}
			isSrc := func(i ssa.Instruction) bool { return i == src[0] }
			hs, _ := (&Walk{Target: isSrc, Edge: EdgeUnder(env(false))}).FromBlock(rd.Blocks[0])
			hc, _ := (&Walk{Target: isSrc, Edge: EdgeUnder(env(true))}).FromBlock(rd.Blocks[0])
			c.Check(rule, "fence:stale-handle-refused", p, rd.Pos(), hs == nil, "a handle of a superseded generation never reaches the source", "a superseded attempt's handle still reads from the shared source: it takes bytes the retry then misses")
			c.Check(rule, "fence:current-handle-reads", p, rd.Pos(), hc != nil, "the current generation's handle reads", "the current attempt's handle cannot read")
		}
	}
	// (4) the rewind bumps the generation under the lock before seeking
	if na := p.Func("agent/utils.(*bufferedReadSeeker).nextAttempt"); na != nil {
		sts := StoresToField([]*ssa.Function{na}, "agent/utils.bufferedReadSeeker", "gen")
		okg := len(sts) == 1
		if okg {
			bo, isB := sts[0].Val.(*ssa.BinOp)
			okg = isB && bo.Op == token.ADD && isConstInt(bo.Y, 1)
		}
		c.Check(rule, "fence:generation-advances", p, na.Pos(), okg, "every rewind advances the generation by one", "the rewind no longer advances the generation: the previous attempt's handle stays valid")
	} else {
		c.Unk(rule, "fence:generation-advances", p, 0, "nextAttempt not found")
	}
}

func c06Unblock(c *Ctx, p *Prog) {
	f := c.need(p, "C06.E", "agent/utils.NewResponseForwarder")
	if f == nil {
		return
	}
	post := c.UniqueCall("C06.E", p, f, true, ModPath+"/agent/utils.postResponseWithRetries")
	write := c.UniqueCall("C06.E", p, f, true, "(*net/http.Response).Write")
	if post == nil || write == nil {
		return
	}
	g1, g2 := Owner(post), Owner(write)
	c.Check("C06.E", "goroutines:distinct", p, f.Pos(), g1 != g2 && g1 != f && g2 != f && goBodyOnce(g1) && goBodyOnce(g2), "upload and serialisation run in two goroutines started once each", "upload and serialisation no longer run in two separate goroutines")
	deferredOnEntry := func(fn *ssa.Function, pred func(*ssa.Defer) bool) bool {
		for _, in := range fn.Blocks[0].Instrs {
			if d, ok := in.(*ssa.Defer); ok && pred(d) {
				return true
			}
			if _, isCall := in.(*ssa.Call); isCall && CalleeName(CallOf(in)) != "" {
				// a call before the defer could return/panic first — only builtin-free prologue allowed
				if IsCall(in, ModPath+"/agent/utils.postResponseWithRetries", "(*net/http.Response).Write") {
					return false
				}
			}
		}
		return false
	}
	// upload goroutine
	c.Check("C06.E", "uploader:closes-pipe-reader", p, g1.Pos(), deferredOnEntry(g1, func(d *ssa.Defer) bool {
		return CalleeName(&d.Call) == "(*io.PipeReader).Close" && PathOf(PArgs(&d.Call)[0]) == "result0:io.Pipe" && SameValue(PArgs(&d.Call)[0], Args(CallOf(post))[4])
	}), "the uploader defers proxyReader.Close(): when all attempts fail the serialiser's pipe write fails instead of blocking", "the uploader no longer closes the read end of the upload pipe on every exit: when the upload fails the serialiser blocks in resp.Write forever and so does the backend-facing handler")
	errChan := func(fn *ssa.Function, what string) {
		var sends []ChanOp
		var ch ssa.Value
		for _, op := range ChanOpsOf(fn) {
			if op.Kind == "send" {
				sends = append(sends, op)
				ch = op.Chan
			}
		}
		if len(sends) == 0 {
			c.Bad("C06.E", what+":reports-error", p, fn.Pos(), "the "+what+" goroutine no longer reports its error")
			return
		}
		mk, size, ok := MakeChanSize(ch)
		loop := false
		for _, s := range sends {
			if InLoop(s.Instr.Block()) {
				loop = true
			}
		}
		c.Check("C06.E", what+":error-channel-capacity", p, sends[0].Instr.Pos(), ok && mk != nil && int(size) >= len(sends) && !loop, fmt.Sprintf("error channel capacity %d ≥ %d send site(s), none in a loop: the send never blocks", size, len(sends)), fmt.Sprintf("the %s goroutine can block sending its error (capacity %d const=%v, %d send sites, loop=%v): its deferred pipe close never runs", what, size, ok, len(sends), loop))
		c.Check("C06.E", what+":closes-error-channel", p, fn.Pos(), deferredOnEntry(fn, func(d *ssa.Defer) bool {
			b, isB := d.Call.Value.(*ssa.Builtin)
			return isB && b.Name() == "close" && SameValue(PArgs(&d.Call)[0], ch)
		}), "the error channel is closed on every exit: Close() never blocks on it", "the "+what+" goroutine no longer closes its error channel on every exit: responseForwarder.Close() blocks forever on success")
	}
	errChan(g1, "uploader")
	// serialiser goroutine
	c.Check("C06.E", "serialiser:closes-pipe-writer", p, g2.Pos(), deferredOnEntry(g2, func(d *ssa.Defer) bool {
		return CalleeName(&d.Call) == "(*io.PipeWriter).Close" && PathOf(PArgs(&d.Call)[0]) == "result1:io.Pipe" && SameValue(PArgs(&d.Call)[0], Args(CallOf(write))[1])
	}), "the serialiser defers proxyWriter.Close(): the upload body ends", "the serialiser no longer closes the write end of the upload pipe on every exit: the upload never terminates")
	errChan(g2, "serialiser")
	// CloseWithError on the failure branch of resp.Write
	okcw := false
	for _, r := range Refs(write.(ssa.Value)) {
		_ = r
	}
	EachInstr(g2, func(i ssa.Instruction) {
		ifi, ok := i.(*ssa.If)
		if !ok {
			return
		}
		v, succ, ok := ErrNilTest(ifi)
		if !ok || !SameValue(v, write.(ssa.Value)) {
			return
		}
		blk := ifi.Block().Succs[succ]
		for _, in := range blk.Instrs {
			if IsCall(in, "("+ModPath+"/agent/utils.StreamingResponseWriter).CloseWithError", "(*"+ModPath+"/agent/utils.streamingResponseWriter).CloseWithError") {
				if PathOf(Args(CallOf(in))[0]) == "result:"+ModPath+"/agent/utils.NewStreamingResponseWriter" {
					okcw = true
				}
			}
		}
	})
	c.Check("C06.E", "serialiser:propagates-failure-to-handler", p, write.Pos(), okcw, "on a serialisation/upload failure the serialiser calls rw.CloseWithError(err): the handler's body Write fails instead of blocking", "a failure of resp.Write is no longer propagated with CloseWithError to the streaming writer: the backend-facing handler stays blocked in Write when the upload has failed")
	// CloseWithError reaches the pipe
	if cw := c.need(p, "C06.E", "agent/utils.(*streamingResponseWriter).CloseWithError"); cw != nil {
		ok := false
		for _, call := range Calls(cw, "(*io.PipeReader).CloseWithError") {
			if PathOf(PArgs(CallOf(call))[0]) == P(cw, 0)+".bodyReader" && PathOf(PArgs(CallOf(call))[1]) == P(cw, 1) {
				ok = true
			}
		}
		c.Check("C06.E", "writer:CloseWithError-closes-body-pipe", p, cw.Pos(), ok, "CloseWithError closes the read end of the body pipe with the error", "CloseWithError no longer closes the body pipe's read end: writers stay blocked")
	}
	// Close drains both
	if cl := c.need(p, "C06.E", "agent/utils.(*responseForwarder).Close"); cl != nil {
		got := map[string]bool{}
		for _, op := range ChanOpsOf(cl) {
			if op.Kind == "recv" {
				if _, fld, ok := FieldLoad(Roots(op.Chan)[0]); ok {
					got[fld] = true
				}
			}
		}
		c.Check("C06.E", "forwarder.Close:waits-for-both", p, cl.Pos(), got["postErrChan"] && got["writeErrChan"], "Close receives from both error channels", "responseForwarder.Close no longer waits for both the uploader and the serialiser: upload errors go unreported")
		// non-nil results are returned: distinct error values that reach a return
		// (`if err != nil { return err }` or `return <-ch` as the last statement)
		retd := map[ssa.Value]bool{}
		for _, r := range Returns(cl) {
			if len(r.Results) != 1 {
				continue
			}
			for _, v := range Roots(ReturnValue(r, 0)) {
				if !IsNilConst(v) {
					retd[v] = true
				}
			}
		}
		n := len(retd)
		c.Check("C06.E", "forwarder.Close:returns-errors", p, cl.Pos(), n >= 3, "each non-nil error (writer close, upload, serialisation) is returned", fmt.Sprintf("only %d of the three error sources are returned by Close", n))
		// the literal binds the channels of this forwarder
		as := AllocsOf(f, "agent/utils.responseForwarder")
		if len(as) == 1 {
			v1, ok1 := LiteralField(as[0], "postErrChan")
			v2, ok2 := LiteralField(as[0], "writeErrChan")
			okb := ok1 && ok2
			if okb {
				var c1, c2 ssa.Value
				for _, op := range ChanOpsOf(g1) {
					if op.Kind == "send" {
						c1 = op.Chan
					}
				}
				for _, op := range ChanOpsOf(g2) {
					if op.Kind == "send" {
						c2 = op.Chan
					}
				}
				okb = c1 != nil && c2 != nil && SameValue(v1, c1) && SameValue(v2, c2)
			}
			c.Check("C06.E", "forwarder:channels-bound", p, as[0].Pos(), okb, "the forwarder's two error channels are the ones its goroutines report on", "the forwarder's error-channel fields are not the channels its goroutines send on")
		}
	}
	// the serialiser stops waiting for the published response only when the request's own context is
	// done — the very event the publishing select of WriteHeader also listens to. A derived context
	// that something else can cancel (the uploader on its final failure) ends the receiver while the
	// sender can still be waiting: the handler then blocks in WriteHeader for good.
	{
		bad, n := "", 0
		for _, op := range ChanOpsOf(g2) {
			if op.Kind != "recv" || !op.InSelect || op.Val == nil || NamedType(op.Val.Type()) != "net/http.Response" {
				continue
			}
			for k, st := range op.Select.States {
				if k == op.State || st.Dir != types.RecvOnly {
					continue
				}
				n++
				okCtx := false
				for _, r := range Roots(st.Chan) {
					call, isC := r.(*ssa.Call)
					if !isC || !call.Call.IsInvoke() || call.Call.Method.FullName() != "(context.Context).Done" {
						continue
					}
					if rc := CallResult(call.Call.Value, 0, "(*net/http.Request).Context"); rc != nil && PathOf(PArgs(&rc.Call)[0]) == P(f, 4) {
						okCtx = true
					}
				}
				if !okCtx {
					bad = "the serialiser's wait for the response also ends on " + PathOf(st.Chan) + " (" + p.Pos(op.Select.Pos()) + ")"
				}
			}
		}
		c.Check("C06.E", "serialiser:gives-up-only-with-the-request-context", p, g2.Pos(), bad == "" && n > 0, "the only other arm of the serialiser's wait for the published response is Done of the request's own context (the one WriteHeader's publishing select listens to)", bad+": when that fires while the handler has not yet written its header, nobody receives the response any more and the backend-facing handler (or Close) blocks in WriteHeader for good although all upload attempts have failed")
	}
	// publication select
	if wh := c.need(p, "C06.E", "agent/utils.(*streamingResponseWriter).WriteHeader"); wh != nil {
		ok := false
		for _, op := range ChanOpsOf(wh) {
			if op.Kind == "send" && op.InSelect {
				for k, st := range op.Select.States {
					if k != op.State && st.Dir == types.RecvOnly && (isDoneChan(st.Chan) || doneUnlessRequestAbsent(st.Chan)) {
						ok = true
					}
				}
			}
		}
		c.Check("C06.E", "writer:publication-not-blocking-forever", p, wh.Pos(), ok, "the response is published in a select next to the request context's Done", "the publication of the response is a plain send: if the serialiser has already gone (request cancelled) the handler blocks forever")
	}
}

// c06Retain: offset agreement inside bufferedReadSeeker.Read. With k bytes
// replayed from the buffer and n bytes freshly read from the source into
// p[k:], the bytes retained for a later replay must be p[k:k+n] (not p[:n]),
// appended at writeHead, and k+n is what the caller is told. Decided by
// evaluating the slice bounds for k=3, n=5 (and k=0, n=5).
func c06Retain(c *Ctx, p *Prog, rule string) {
	rd := c.need(p, rule, "agent/utils.(*bufferedReadSeeker).Read")
	if rd == nil {
		return
	}
	recvP, bufP := ParamAt(rd, 0), ParamAt(rd, 1)
	var copies []*ssa.Call
	var srcs []*ssa.Call
	EachInstr(rd, func(i ssa.Instruction) {
		call, ok := i.(*ssa.Call)
		if !ok {
			return
		}
		if b, isB := call.Call.Value.(*ssa.Builtin); isB && b.Name() == "copy" {
			copies = append(copies, call)
		}
		if call.Call.IsInvoke() && call.Call.Method.Name() == "Read" {
			if _, f, ok := FieldLoad(call.Call.Value); ok && f == "r" {
				srcs = append(srcs, call)
			}
		}
	})
	// the main read is the one whose bytes are retained (dominates the retain copy); others are
	// alternatives on paths of their own (a pass-through fast path) and are judged by the vectors below
	var src *ssa.Call
	var replay, retain *ssa.Call
	isBufSlice := func(v ssa.Value) *ssa.Slice {
		sl, ok := v.(*ssa.Slice)
		if !ok {
			return nil
		}
		if base, f, ok := FieldLoad(sl.X); ok && f == "buf" && rootIs(base, recvP) {
			return sl
		}
		return nil
	}
	for _, cp := range copies {
		if isBufSlice(PArgs(&cp.Call)[1]) != nil {
			replay = cp
		}
		if isBufSlice(PArgs(&cp.Call)[0]) != nil {
			retain = cp
		}
	}
	for _, sc := range srcs {
		if retain != nil {
			if h, _ := (&Walk{Target: func(i ssa.Instruction) bool { return i == ssa.Instruction(retain) }, Local: true}).FromInstr(sc); h != nil {
				src = sc
			}
		}
	}
	if src == nil || replay == nil || retain == nil || replay == retain {
		c.Unk(rule, "read:shape", p, rd.Pos(), "Read is no longer `k := copy(p, buf[readHead:writeHead]); n := source.Read(p[k:]); copy(buf[writeHead:], <fresh bytes>)`: the retained prefix cannot be related to the bytes handed out")
		return
	}
	c.OK(rule, "read:shape", p, rd.Pos(), "replay copy, one source read, retain copy")
	ns := map[ssa.Value]bool{}
	for _, sc := range srcs {
		for _, r := range Refs(sc) {
			if ex, ok := r.(*ssa.Extract); ok && ex.Index == 0 {
				ns[ex] = true
			}
		}
	}
	// a state of the reader at entry: wh bytes retained so far, k of them still to be replayed
	// (readHead = wh-k), room for lb bytes; the call replays k, the source yields nn, ret of
	// them fit into the buffer
	envFull := func(k, nn, wh, lb, ret int64) Env {
		return func(v ssa.Value) (constant.Value, bool) {
			switch {
			case v == ssa.Value(replay):
				return IntC(k), true
			case ns[v]:
				return IntC(nn), true
			case v == ssa.Value(retain):
				return IntC(ret), true
			}
			if base, f, ok := FieldLoad(v); ok && rootIs(base, recvP) {
				switch f {
				case "writeHead":
					return IntC(wh), true
				case "readHead":
					// only the value at entry is known (the method advances it)
					if ld, isI := v.(ssa.Instruction); isI && ld.Block() == rd.Blocks[0] {
						early := true
						for _, j := range rd.Blocks[0].Instrs {
							if j == ld {
								break
							}
							if st, isS := j.(*ssa.Store); isS {
								if _, fs, okS := FieldAddrOf(st.Addr); okS && fs == "readHead" {
									early = false
								}
							}
						}
						if early {
							return IntC(wh - k), true
						}
					}
				}
			}
			if call, isC := v.(*ssa.Call); isC {
				if b, isB := call.Call.Value.(*ssa.Builtin); isB && b.Name() == "len" {
					if base, f, ok := FieldLoad(call.Call.Args[0]); ok && f == "buf" && rootIs(base, recvP) {
						return IntC(lb), true
					}
				}
			}
			return nil, false
		}
	}
	env := func(k, nn, wh int64) Env { return envFull(k, nn, wh, wh+nn+7, nn) }
	bound := func(v ssa.Value, e Env, dflt int64) (int64, bool) {
		if v == nil {
			return dflt, true
		}
		cv, ok := Eval(v, e)
		if !ok {
			return 0, false
		}
		x, ok := constant.Int64Val(constant.ToInt(cv))
		return x, ok
	}
	// window(v) = [lo,hi) relative to p, following nested slices of p; hi=-1: open
	var window func(v ssa.Value, e Env) (int64, int64, bool)
	window = func(v ssa.Value, e Env) (int64, int64, bool) {
		if v == ssa.Value(bufP) {
			return 0, -1, true
		}
		sl, ok := v.(*ssa.Slice)
		if !ok {
			return 0, 0, false
		}
		blo, bhi, ok := window(sl.X, e)
		if !ok {
			return 0, 0, false
		}
		lo, ok1 := bound(sl.Low, e, 0)
		hi, ok2 := bound(sl.High, e, -1)
		if !ok1 || !ok2 {
			return 0, 0, false
		}
		nlo := blo + lo
		nhi := bhi
		if hi >= 0 {
			nhi = blo + hi
		}
		return nlo, nhi, true
	}
	entry := rd.Blocks[0]
	reachable := func(e Env, tgt ssa.Instruction) bool {
		h, _ := (&Walk{Target: func(i ssa.Instruction) bool { return i == tgt }, Edge: EdgeUnder(e)}).FromBlock(entry)
		return h != nil
	}
	// buffer full and replayed completely (the bulk of a large response): whichever source read
	// the call takes fills p from its start, and its count is what the caller is told
	{
		e := envFull(0, 5, 10, 10, 0)
		bad := ""
		nreach := 0
		for _, sc := range srcs {
			if !reachable(e, sc) {
				continue
			}
			nreach++
			if lo, hi, ok := window(PArgs(&sc.Call)[0], e); !ok || lo != 0 || hi != -1 {
				bad = fmt.Sprintf("the source is read into p[%d:%d] rather than p", lo, hi)
			}
		}
		if nreach != 1 {
			bad = fmt.Sprintf("%d source reads can run", nreach)
		}
		(&Walk{Target: func(i ssa.Instruction) bool {
			if r, isR := i.(*ssa.Return); isR && i.Parent() == rd {
				cv, ok := Eval(ReturnValue(r, 0), e)
				x, _ := constant.Int64Val(constant.ToInt(cvOr(cv, ok)))
				if !ok || x != 5 {
					bad = "the call does not report the bytes the source produced"
				}
			}
			return false
		}, Edge: EdgeUnder(e)}).FromBlock(entry)
		c.Check(rule, "read:pass-through-once-full", p, rd.Pos(), bad == "", "with the buffer full and replayed completely the call is one source read into p, reported as it is", "with the replay buffer full and replayed completely: "+bad)
	}
	for _, t := range []struct{ k, n int64 }{{3, 5}, {0, 5}} {
		e := env(t.k, t.n, 10)
		if !reachable(e, src) {
			// replay-only call (k > 0): the replayed bytes are returned as they are and the source is not touched
			okRet := t.k > 0
			(&Walk{Target: func(i ssa.Instruction) bool {
				if r, isR := i.(*ssa.Return); isR && i.Parent() == rd {
					cv, ok := Eval(ReturnValue(r, 0), e)
					x, _ := constant.Int64Val(constant.ToInt(cvOr(cv, ok)))
					if !ok || x != t.k || !IsNilConst(ReturnValue(r, 1)) {
						okRet = false
					}
				}
				return false
			}, Edge: EdgeUnder(e)}).FromBlock(entry)
			why := fmt.Sprintf("with %d bytes replayed the source is not read but the call does not return (%d, nil)", t.k, t.k)
			for _, sc := range srcs {
				if sc != src && reachable(e, sc) {
					why = fmt.Sprintf("with %d bytes replayed and room left in the buffer the call reads the source at %s, on a path that does not retain what it read: a retried upload replays a prefix with a hole", t.k, p.Pos(sc.Pos()))
					okRet = false
				}
			}
			c.Check(rule, fmt.Sprintf("read:source-fills-after-replayed[k=%d]", t.k), p, src.Pos(), okRet, "with replayed bytes in hand the call returns exactly them (k, nil) without reading the source", why)
			c.OK(rule, fmt.Sprintf("read:retains-the-fresh-bytes[k=%d]", t.k), p, retain.Pos(), "no fresh bytes in a replay-only call: nothing to retain")
			continue
		}
		lo, hi, ok := window(PArgs(&src.Call)[0], e)
		c.Check(rule, fmt.Sprintf("read:source-fills-after-replayed[k=%d]", t.k), p, src.Pos(), ok && lo == t.k && hi == -1, "the source reads into p[k:]", fmt.Sprintf("with %d bytes replayed the source is read into p[%d:%d] rather than p[%d:]: replayed bytes are overwritten or a gap is left", t.k, lo, hi, t.k))
		lo, hi, ok = window(PArgs(&retain.Call)[1], e)
		c.Check(rule, fmt.Sprintf("read:retains-the-fresh-bytes[k=%d]", t.k), p, retain.Pos(), ok && lo == t.k && hi == t.k+t.n, "the bytes retained for replay are p[k:k+n], exactly those the source just produced", fmt.Sprintf("with k=%d bytes replayed and n=%d bytes read from the source, the buffer retains p[%d:%d] instead of p[%d:%d]: a later retry replays the wrong bytes (the upload body differs between attempts)", t.k, t.n, lo, hi, t.k, t.k+t.n))
	}
	// destination of the retain copy: buf[writeHead:]
	dst := isBufSlice(PArgs(&retain.Call)[0])
	e := env(0, 5, 10)
	dlo, ok1 := bound(dst.Low, e, 0)
	c.Check(rule, "read:retains-at-writeHead", p, retain.Pos(), ok1 && dlo == 10 && dst.High == nil, "retained bytes are appended at writeHead", "retained bytes are not appended at buf[writeHead:]: the stored prefix is no longer the stream prefix")
	// replay source: buf[readHead:writeHead] into p
	rs := isBufSlice(PArgs(&replay.Call)[1])
	okr := PArgs(&replay.Call)[0] == ssa.Value(bufP) && rs.Low != nil && rs.High != nil
	if okr {
		_, f1, o1 := FieldLoad(rs.Low)
		_, f2, o2 := FieldLoad(rs.High)
		okr = o1 && o2 && f1 == "readHead" && f2 == "writeHead"
	}
	c.Check(rule, "read:replays-readHead-to-writeHead", p, replay.Pos(), okr, "the replay hands out buf[readHead:writeHead] into p", "the replay no longer copies buf[readHead:writeHead] to the start of p")
	// heads advance by what was copied; result = k+n
	for _, fld := range []string{"writeHead"} {
		sts := StoresToField([]*ssa.Function{rd}, "agent/utils.bufferedReadSeeker", fld)
		okw := len(sts) == 1
		if okw {
			cv, ok := Eval(sts[0].Val, e)
			x, _ := constant.Int64Val(constant.ToInt(cvOr(cv, ok)))
			okw = ok && x == 15
		}
		c.Check(rule, "read:"+fld+"-advances-by-retained", p, rd.Pos(), okw, fld+" advances by the number of bytes retained", fld+" does not advance by exactly the number of retained bytes: the buffer claims more or fewer prefix bytes than it holds")
	}
	okres := true
	for _, t := range []struct{ k, n int64 }{{3, 5}, {0, 5}} {
		e2 := env(t.k, t.n, 10)
		want := t.k + t.n
		if !reachable(e2, src) {
			want = t.k
		}
		(&Walk{Target: func(i ssa.Instruction) bool {
			if r, isR := i.(*ssa.Return); isR && i.Parent() == rd {
				cv, ok := Eval(ReturnValue(r, 0), e2)
				x, _ := constant.Int64Val(constant.ToInt(cvOr(cv, ok)))
				if !ok || x != want {
					okres = false
				}
			}
			return false
		}, Edge: EdgeUnder(e2)}).FromBlock(entry)
	}
	c.Check(rule, "read:reports-k-plus-n", p, rd.Pos(), okres, "Read reports replayed+fresh bytes", "Read does not report replayed+fresh bytes: the uploader sends a body of the wrong length")
}

func cvOr(cv constant.Value, ok bool) constant.Value {
	if !ok || cv == nil {
		return constant.MakeInt64(-999)
	}
	return cv
}

// doneUnlessRequestAbsent: v is phi(nil, <request context>.Done()) where the nil edge is taken
// exactly when the writer's request field is nil (no request: nothing could cancel the wait, and
// the agent never builds a writer without one).
func doneUnlessRequestAbsent(v ssa.Value) bool {
	ph, ok := v.(*ssa.Phi)
	if !ok || len(ph.Edges) != 2 {
		return false
	}
	sawDone, sawNil := false, false
	for k, e := range ph.Edges {
		if IsNilConst(e) {
			cond, truth, okc := edgeCondition(ph.Block().Preds[k], ph.Block(), 0)
			if !okc {
				return false
			}
			_, fld, isF := FieldLoad(cond.X)
			if !isF || fld != "r" || !IsNilConst(cond.Y) {
				return false
			}
			// the edge is taken when r == nil
			if !((cond.Op == token.EQL && truth) || (cond.Op == token.NEQ && !truth)) {
				return false
			}
			sawNil = true
			continue
		}
		if !isDoneChan(e) {
			return false
		}
		sawDone = true
	}
	return sawDone && sawNil
}

// Command ipcheck decides the structural clauses of the inverting-proxy
// properties from the type-checked source of the repository.
package main

import (
	"flag"
	"fmt"
	"os"
	"path/filepath"
	"runtime/debug"
	"sort"
	"strconv"
	"strings"
	"sync"
	"time"

	"ipcheck/ipc"
)

func main() {
	prop := flag.String("property", "", "property id (C01…C20) or 'all'")
	tier := flag.String("tier", "", "quick|thorough (default: $VERIF_TIER or quick)")
	repo := flag.String("repo", "/repo", "repository root")
	verif := flag.String("verif", "/verif", "verif root (evidence/, known_findings.json)")
	dump := flag.String("dump", "", "debug: print SSA of the named function (mod program)")
	pin := flag.String("pin", "", "maintenance: write the identifier fingerprints of the tree at -repo to this file (checker/ipc/pinned.json) and exit")
	aliases := flag.Bool("aliases", false, "debug: print the rename aliases established for the tree at -repo")
	flag.Parse()
	if *pin != "" || *aliases {
		p, err := ipc.LoadNamed("mod", *repo, nil, "", "")
		if err != nil {
			fmt.Println(err)
			os.Exit(2)
		}
		if *aliases {
			for _, l := range p.Aliases {
				fmt.Println(l)
			}
			return
		}
		if err := os.WriteFile(*pin, ipc.ComputePinned(p).JSON(), 0o644); err != nil {
			fmt.Println(err)
			os.Exit(2)
		}
		return
	}
	if *tier == "" {
		*tier = os.Getenv("VERIF_TIER")
	}
	if *tier != "thorough" {
		*tier = "quick"
	}
	seed, _ := strconv.ParseInt(os.Getenv("VERIF_SEED"), 10, 64)
	os.Unsetenv("GOWORK")
	os.Setenv("IPCHECK_VERIF", *verif)

	if *dump != "" {
		p, err := ipc.LoadNamed("mod", *repo, nil, "", "")
		if err != nil {
			fmt.Println(err)
			os.Exit(2)
		}
		for _, fn := range p.Funcs {
			if strings.Contains(ipc.FuncName(fn), *dump) {
				fmt.Println("=====", ipc.FuncName(fn))
				fn.WriteTo(os.Stdout)
			}
		}
		return
	}

	var ids []string
	if *prop == "all" {
		for id := range ipc.Props {
			ids = append(ids, id)
		}
		sort.Strings(ids)
	} else {
		ids = strings.Split(*prop, ",")
	}
	if len(ids) == 0 || ids[0] == "" {
		fmt.Println("usage: ipcheck -property C01[,C02…]|all [-tier quick|thorough]")
		os.Exit(2)
	}
	exit := 0
	// load the union of the needed programs once, in parallel
	need := map[string]bool{}
	for _, id := range ids {
		spec := ipc.Props[id]
		if spec == nil {
			fmt.Printf("unknown property %s\n", id)
			os.Exit(2)
		}
		for _, n := range spec.Progs {
			need[n] = true
		}
	}
	progs := map[string]*ipc.Prog{}
	loadErr := map[string]error{}
	var mu sync.Mutex
	var wg sync.WaitGroup
	for n := range need {
		wg.Add(1)
		go func(n string) {
			defer wg.Done()
			p, err := ipc.LoadNamed(n, *repo, nil, "", "")
			mu.Lock()
			progs[n], loadErr[n] = p, err
			mu.Unlock()
		}(n)
	}
	wg.Wait()
	known, kerr := ipc.LoadKnown(filepath.Join(*verif, "known_findings.json"))
	os.MkdirAll(filepath.Join(*verif, "evidence"), 0o755)
	for _, id := range ids {
		if runOne(id, *tier, seed, *repo, *verif, progs, loadErr, known, kerr) != 0 {
			exit = 1
		}
	}
	os.Exit(exit)
}

func runOne(id, tier string, seed int64, repo, verif string, progs map[string]*ipc.Prog, loadErr map[string]error, known *ipc.KnownFindings, kerr error) (code int) {
	t0 := time.Now()
	spec := ipc.Props[id]
	evPath := filepath.Join(verif, "evidence", id+".json")
	cmd := fmt.Sprintf("/verif/bin/check %s %s", id, tier)
	fail := func(msg string) int {
		// fail closed: a tree the checker cannot analyse is never reported as passing
		fmt.Printf("  ERROR %s: %s\n", id, msg)
		c := ipc.NewCtx(id, map[string]*ipc.Prog{})
		c.Rule("analysis", "the repository loads, type-checks and every anchor resolves", 0)
		c.Bad("analysis", "load", nil, 0, msg)
		if known == nil {
			known = &ipc.KnownFindings{}
		}
		res, err := c.Finish(spec, known, tier, seed, evPath, cmd, t0, nil)
		if err != nil {
			fmt.Println("  ERROR writing evidence:", err)
		}
		if res != nil {
			for _, l := range res.Lines {
				fmt.Println(l)
			}
		} else {
			fmt.Printf("VIOLATION property=%s replay=%s\n", id, evPath)
		}
		return 1
	}
	if kerr != nil {
		return fail("known_findings.json unreadable: " + kerr.Error())
	}
	mine := map[string]*ipc.Prog{}
	for _, n := range spec.Progs {
		if loadErr[n] != nil {
			return fail(loadErr[n].Error())
		}
		mine[n] = progs[n]
	}
	c := ipc.NewCtx(id, mine)
	var pnames []string
	for name := range mine {
		pnames = append(pnames, name)
	}
	sort.Strings(pnames)
	for _, name := range pnames {
		as := append([]string{}, mine[name].Aliases...)
		sort.Strings(as)
		for _, a := range as {
			c.Infof("program %s: %s", name, a)
		}
	}
	defer func() {
		if r := recover(); r != nil {
			code = fail(fmt.Sprintf("checker panic: %v\n%s", r, debug.Stack()))
		}
	}()
	spec.Run(c)
	extra := map[string]interface{}{}
	if tier == "thorough" {
		ipc.Thorough(c, spec, repo, extra)
	}
	res, err := c.Finish(spec, known, tier, seed, evPath, cmd, t0, extra)
	if err != nil {
		return fail("cannot write evidence: " + err.Error())
	}
	for _, l := range res.Lines {
		fmt.Println(l)
	}
	nd := 0
	for _, o := range c.Obs {
		if o.Status == ipc.Discharged {
			nd++
		}
	}
	fmt.Printf("%s %s: %d obligations, %d discharged, %d unlisted violation(s), %.1fs\n", id, tier, len(c.Obs), nd, res.Violations, time.Since(t0).Seconds())
	if res.Violations > 0 {
		return 1
	}
	return 0
}
